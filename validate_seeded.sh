#!/bin/bash
# usage: validate_seeded.sh <seeded-dir-name>   (development helper)
# Confirms a seeded change in a scratch worktree: suite still passes with the
# patch, demo fails with it and passes without it.
d=/verif/seeded/$1; wt=/tmp/wt-validate; export CARGO_NET_OFFLINE=true
cd $wt && git checkout -q -- . && git clean -fdq tests src
demo=tests/seeded_$(echo $1 | tr 'A-Z-' 'a-z_')_demo.rs
cp $d/demo.rs $demo
out=$d/validation.txt; : > $out
echo "== demo without patch" >> $out
nice cargo test --offline --test $(basename $demo .rs) 2>&1 | grep -E "^test |test result|error" >> $out
git apply $d/patch.diff || { echo "PATCH DOES NOT APPLY" >> $out; exit 1; }
echo "== demo with patch" >> $out
nice cargo test --offline --test $(basename $demo .rs) 2>&1 | grep -E "^test |test result|error" >> $out
rm $demo
echo "== existing suite with patch" >> $out
nice cargo test --workspace --no-fail-fast --offline 2>&1 | grep -E "test result|FAILED|failed" >> $out
git checkout -q -- . && git clean -fdq tests src
cat $out
