#!/bin/bash
# development helper: run every claimed quick check sequentially
cd /verif
for p in "$@"; do
  echo "=== $p $(date +%H:%M:%S)"
  python3 run_check.py $p --tier quick 2>&1 | grep -E "^(RESULT|VIOLATION|KNOWN|NOTE|INCONCLUSIVE|  c)"
  echo "exit=$?"
done
