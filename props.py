"""Per-property harness lists, bounds and claim texts.  One entry per claimed
property; quick/thorough are lists of groups, each group one `cargo kani`
invocation (harnesses run in parallel inside a group)."""


def shapes(prefix, names):
    return [prefix + n for n in names]


C01_BUY = shapes("c01_buy_", ["a0_m1", "a0_m7", "a1_m3", "a1_m1", "a2_m7", "a0_m0"])
C01_SELL = shapes("c01_sell_", ["a0_m1", "a0_m7", "a1_m3", "a1_m1", "a2_m7"])
C01_ROC = shapes("c01_roc_", ["a0_m1", "a0_m7", "a1_m3", "a2_m7"])
C01_SFLA = shapes("c01_sfla_", ["a0_m1", "a1_m3", "a2_m7"])
C01_SPLIT = shapes("c01_split_", ["a0_m1", "a0_m7", "a1_m3", "a2_m7"])

STEP_FUNCS = [
    "portfolio::bookkeeping::delta_list::delta_for_tx",
    "portfolio::bookkeeping::delta_list::sanity_check_ptfs",
    "portfolio::model::txdelta::PortfolioSecurityStatus::per_share_acb",
    "portfolio::bookkeeping::portfolio_status::AffiliatePortfolioSecurityStatuses::{new,get_next_pre_status,set_latest_post_status,get_latest_post_status_for_affiliate}",
    "portfolio::model::tx::{SflaTxSpecifics::total_amount,SplitRatio::pre_to_post_factor,SplitRatio::is_reverse_split,BuyTxSpecifics::commission_currency_and_rate,SellTxSpecifics::commission_currency_and_rate}",
    "util::decimal::ConstrainedDecimal ops (Add/Mul/div/try_from/From)",
]
STEP_BOUNDS = ("one transaction from an arbitrary valid portfolio state; shapes (acting affiliate x set of affiliates "
               "that transacted before) fixed per harness: a0_m1,a0_m7,a1_m3,a1_m1,a2_m7,a0_m0; balances 0..100 whole shares, "
               "ACB 0..100.00, shares 1..100, price 0..10.00, commission 0..1.00, FX rates 0.01..2.00 (symbolic CAD/USD and "
               "separate commission currency), split ratios 1..9 for 1..9; unwind 4 (1-character security/affiliate ids)")
STEP_OUTSIDE = ("values beyond the ranges above; fractional share balances; more than 3 affiliates; decimal mantissas "
                ">= 2^62 or scale > 18; division digits beyond 6 (the distance of c*n from ACB*n/balance is n*1e-6 in the "
                "model, n*1e-28 for rust_decimal: paper step); histories of length > 1 are covered by induction over the "
                "state invariant, not by a pipeline run")

PROPS = {
    "C01": {
        "quick": [{"name": "steps", "harnesses": C01_BUY[:3] + C01_SELL[:3] + C01_ROC[:2] + C01_SFLA[:2] + C01_SPLIT[:2],
                   "jobs": 8}],
        "thorough": [{"name": "steps", "harnesses": C01_BUY + C01_SELL + C01_ROC + C01_SFLA + C01_SPLIT, "jobs": 8}],
        "expect_covers": {"c01_roc_a2_m7": 1, "c01_sfla_a2_m7": 1, "c01_sfla_a0_m1": 1, "c01_sfla_a1_m3": 1,
                          "c01_sell_a0_m0": 1},
        "functions": STEP_FUNCS,
        "bounds": STEP_BOUNDS,
        "outside": STEP_OUTSIDE,
    },
}
