"""Per-property harness lists, bounds and claim texts.  One entry per claimed
property; quick/thorough are lists of groups, each group one `cargo kani`
invocation (harnesses run in parallel inside a group)."""


def shapes(prefix, names):
    return [prefix + n for n in names]


C01_BUY = shapes("c01_buy_", ["a0_m1", "a0_m7", "a1_m3", "a1_m1", "a2_m7", "a0_m0"])
C01_SELL = shapes("c01_sell_", ["a0_m1", "a0_m7", "a1_m3", "a1_m1", "a2_m7"])
C01_ROC = shapes("c01_roc_", ["a0_m1", "a0_m7", "a1_m3", "a2_m7"])
C01_SFLA = shapes("c01_sfla_", ["a0_m1", "a1_m3", "a2_m7"])
C01_SPLIT = shapes("c01_split_", ["a0_m1", "a0_m7", "a1_m3", "a2_m7"])

STEP_FUNCS = [
    "portfolio::bookkeeping::delta_list::delta_for_tx",
    "portfolio::bookkeeping::delta_list::sanity_check_ptfs",
    "portfolio::model::txdelta::PortfolioSecurityStatus::per_share_acb",
    "portfolio::bookkeeping::portfolio_status::AffiliatePortfolioSecurityStatuses::{new,get_next_pre_status,set_latest_post_status,get_latest_post_status_for_affiliate}",
    "portfolio::model::tx::{SflaTxSpecifics::total_amount,SplitRatio::pre_to_post_factor,SplitRatio::is_reverse_split,BuyTxSpecifics::commission_currency_and_rate,SellTxSpecifics::commission_currency_and_rate}",
    "util::decimal::ConstrainedDecimal ops (Add/Mul/div/try_from/From)",
]
STEP_BOUNDS = ("one transaction from an arbitrary valid portfolio state; shapes (acting affiliate x set of affiliates "
               "that transacted before) fixed per harness: a0_m1,a0_m7,a1_m3,a1_m1,a2_m7,a0_m0; quick tier: balances 0..15 whole "
               "shares, ACB 0..10.00, shares 1..15, price 0..1.00, commission 0..0.15, FX rates 0.01..0.31; thorough tier: "
               "balances 0..100, ACB 0..100.00, shares 1..100, price 0..10.00, commission 0..1.00, FX rates 0.01..2.00; "
               "symbolic CAD/USD and separate commission currency; split ratios 1..9 for 1..9; unwind 4 (1-character "
               "security/affiliate ids)")
STEP_OUTSIDE = ("values beyond the ranges above; fractional share balances; more than 3 affiliates; decimal mantissas "
                ">= 2^62 or scale > 18; division digits beyond 6 (the distance of c*n from ACB*n/balance is n*1e-6 in the "
                "model, n*1e-28 for rust_decimal: paper step); histories of length > 1 are covered by induction over the "
                "state invariant, not by a pipeline run")

PROPS = {
    "C01": {
        "quick": [{"name": "steps", "harnesses": ["c01_buy_a0_m7", "c01_buy_a2_m7", "c01_sell_a0_m1", "c01_sell_a1_m3",
                                                 "c01_roc_a0_m1", "c01_sfla_a0_m1", "c01_split_a0_m1", "c01_split_a2_m7"],
                   "jobs": 8}],
        "thorough": [{"name": "steps", "harnesses": C01_BUY + C01_SELL + C01_ROC + C01_SFLA + C01_SPLIT, "jobs": 8}],
        # harnesses in which only one of the accepted/rejected branches exists
        "expect_covers": {"c01_roc_a2_m7": 1, "c01_sfla_a2_m7": 1, "c01_sfla_a0_m1": 1, "c01_sfla_a1_m3": 1,
                          "c01_sell_a1_m1": 1, "c01_split_a2_m7": 2},
        "functions": STEP_FUNCS,
        "bounds": STEP_BOUNDS,
        "outside": STEP_OUTSIDE,
    },
}

# ---------------------------------------------------------------------------
# Claim texts (MANIFEST.level_claimed.text / level_note) per claimed property.
CLAIMS = {
    "C01": {
        "text": ("Bounded model checking (Kani/CBMC) of the real delta_for_tx from an arbitrary valid portfolio state: for "
                 "every Buy/Sell/RoC/SfLA/Split with symbolic amounts, rates and flags inside the stated ranges the solver "
                 "shows the reported balance, all-affiliate balance, ACB and gain equal the average-cost rule (aligned with "
                 "the model's truncated quotient), per affiliate, registered = shares only. Histories of any length follow "
                 "by induction over the checked state invariant (paper step); that is why one step from any state is the "
                 "right unit and a sampled history is not."),
        "note": ("Trusted: decimal model crate (exact i64 mantissa arithmetic, 6-digit truncated division) in place of "
                 "rust_decimal, Vec-backed HashMap, formatting and Affiliate::from_strep stubs, superficial-loss scan "
                 "stubbed to 'not superficial' in the sell step (C02 owns it). Shapes fixed per harness; value ranges in "
                 "evidence.bounds; the 1e-9 clause is carried from 6 to 28 digits on paper."),
        "design_ref": "DESIGN.md 5 C01",
    },
}

NOT_APPLICABLE = {
    "C14": ("crash points of a file write are defined by the OS file system, not by code the solver executes; Kani has no "
            "file-system model and a check that cannot tell an atomic-rename repair from the current code is not a check "
            "(DESIGN.md 5 C14)"),
}
for _p in ["C02", "C03", "C04", "C05", "C06", "C07", "C08", "C09", "C10", "C11", "C12", "C13", "C15", "C16", "C17",
           "C18", "C19", "C20"]:
    NOT_APPLICABLE.setdefault(_p, "harness family not built yet in this round (work in progress; see DESIGN.md 5)")
