"""Per-property harness lists, bounds and claim texts.  One entry per claimed
property; quick/thorough are lists of groups, each group one `cargo kani`
invocation (harnesses run in parallel inside a group)."""


def shapes(prefix, names):
    return [prefix + n for n in names]


C01_BUY = shapes("c01_buy_", ["a0_m1", "a0_m7", "a1_m3", "a1_m1", "a2_m7", "a0_m0"])
C01_SELL = shapes("c01_sell_", ["a0_m1", "a0_m7", "a1_m3", "a1_m1", "a2_m7"])
C01_ROC = shapes("c01_roc_", ["a0_m1", "a0_m7", "a1_m3", "a2_m7"])
C01_SFLA = shapes("c01_sfla_", ["a0_m1", "a1_m3", "a2_m7"])
C01_SPLIT = shapes("c01_split_", ["a0_m1", "a0_m7", "a1_m3", "a2_m7"])

STEP_FUNCS = [
    "portfolio::bookkeeping::delta_list::delta_for_tx",
    "portfolio::bookkeeping::delta_list::sanity_check_ptfs",
    "portfolio::model::txdelta::PortfolioSecurityStatus::per_share_acb",
    "portfolio::bookkeeping::portfolio_status::AffiliatePortfolioSecurityStatuses::{new,get_next_pre_status,set_latest_post_status,get_latest_post_status_for_affiliate}",
    "portfolio::model::tx::{SflaTxSpecifics::total_amount,SplitRatio::pre_to_post_factor,SplitRatio::is_reverse_split,BuyTxSpecifics::commission_currency_and_rate,SellTxSpecifics::commission_currency_and_rate}",
    "util::decimal::ConstrainedDecimal ops (Add/Mul/div/try_from/From)",
]
STEP_BOUNDS = ("one transaction from an arbitrary valid portfolio state; shapes (acting affiliate x set of affiliates "
               "that transacted before) fixed per harness: a0_m1,a0_m7,a1_m3,a1_m1,a2_m7,a0_m0; quick tier: balances 0..7 whole "
               "shares, ACB 0..2.55, shares 1..7, price 0..0.31, commission 0..0.07, FX rates 0.01..0.15; thorough tier: "
               "balances 0..63, ACB 0..40.00, shares 1..63, price 0..5.00, commission 0..0.63, FX rates 0.01..1.27; "
               "symbolic CAD/USD and separate commission currency; split ratios 1..9 for 1..9; unwind 4 (1-character "
               "security/affiliate ids)")
STEP_OUTSIDE = ("values beyond the ranges above; fractional share balances; more than 3 affiliates; decimal mantissas "
                ">= 2^62 or scale > 18; division digits beyond 6 (the distance of c*n from ACB*n/balance is n*1e-6 in the "
                "model, n*1e-28 for rust_decimal: paper step); histories of length > 1 are covered by induction over the "
                "state invariant, not by a pipeline run")

PROPS = {
    "C01": {
        # the quick command must finish well inside 15 minutes on a loaded machine:
        # four rows here; RoC and SfLA rows run in the quick tiers of C03/C04, all
        # 22 shapes in the thorough tier
        "quick": [{"name": "steps", "harnesses": ["c01_buy_a0_m7", "c01_sell_a0_m1", "c01_split_a0_m1", "c01_csvtx_defaults"],
                   "jobs": 4}],
        "thorough": [{"name": "steps", "harnesses": C01_BUY + C01_SELL + C01_ROC + C01_SFLA + C01_SPLIT + ["c01_csvtx_defaults"],
                      "jobs": 8, "timeout_s": 20000, "harness_timeout_s": 4000}],
        # harnesses in which only one of the accepted/rejected branches exists
        "expect_covers": {"c01_roc_a2_m7": 1, "c01_sfla_a2_m7": 1, "c01_sfla_a0_m1": 1, "c01_sfla_a1_m3": 1,
                          "c01_sell_a1_m1": 1, "c01_split_a2_m7": 2},
        "functions": STEP_FUNCS,
        "bounds": STEP_BOUNDS,
        "outside": STEP_OUTSIDE,
    },
}


WINDOW_FUNCS = [
    "portfolio::bookkeeping::superficial_loss::{get_superficial_loss_ratio,get_superficial_loss_info,calc_superficial_loss_ratio}",
    "portfolio::bookkeeping::superficial_loss::{get_first_day_in_superficial_loss_period,get_last_day_in_superficial_loss_period}",
    "SuperficialLossInfo::buying_affiliate_split_adjusted_shares_at_eop_total", "util::decimal::constrained_min",
    "AffiliatePortfolioSecurityStatuses::{get_latest_post_status,get_latest_post_status_for_affiliate}",
    "time::Date +/- Duration (real crate)",
]
WINDOW_BOUNDS = ("the loss sale settles on day 100 of 2020 (concrete); every other row settles at a symbolic offset 0..32 "
                 "(quick) / 0..35 (thorough) days before/after it (so 29,30,31 and same-day in both file orders are inside) "
                 "and trades a symbolic 0..3 days earlier (thorough; the quick tier gives every row one fixed trade date 40 days "
                 "before the sale, and compiles the cover witnesses of the window harnesses out -- the thorough tier keeps "
                 "them), share counts 1..7 (quick) / 1..15 (thorough), opening balances "
                 "0..7 / 0..15; the action and affiliate at each index are fixed per harness (shapes listed in "
                 "samples); unwind 5-6")
WINDOW_OUTSIDE = ("more than 2 neighbours of the sale; more than 3 affiliates; fractional share counts in window rows; "
                  "windows crossing a year boundary (the real time crate computes the +/-30 days, but only from the "
                  "concrete anchor); split ratios other than m-for-1 with m<=3 in the C15 window shape")

PROPS["C02"] = {
    "quick": [{"name": "window", "harnesses": ["c02_w_buy_sale_buy"], "jobs": 1, "mem_gb": 28,
               "harness_timeout_s": 2400, "cbmc_args": ["--max-field-sensitivity-array-size", "400"]}],
    "thorough": [{"name": "window", "harnesses": ["c02_w_buy_sale_buy", "c02_w_otherbuy_othersell_sale", "c02_w_otherbuy_sale_sell",
                                                  "c02_w_regbuy_sale_otherbuy_othersell", "c02_lemma_buy_sale"],
                  "jobs": 2, "mem_gb": 28, "timeout_s": 20000, "harness_timeout_s": 6000,
                  "cbmc_args": ["--max-field-sensitivity-array-size", "400"]}],
    "functions": WINDOW_FUNCS,
    "bounds": WINDOW_BOUNDS,
    "outside": WINDOW_OUTSIDE,
}
PROPS["C06"] = {
    "quick": [{"name": "sums", "harnesses": ["c06_year_sums_3", "c06_round_to_cent_is_half_away_from_zero"], "jobs": 2}],
    "thorough": [{"name": "sums", "harnesses": ["c06_year_sums_3", "c06_round_to_cent_is_half_away_from_zero"], "jobs": 2}],
    "functions": ["portfolio::cumulative_gains::calc_security_cumulative_capital_gains",
                  "util::math::round_to_cent (the rounding used by dollar_precision_str / PrintHelper::curr_str)"],
    "bounds": ("3 rows with symbolic optional gains in [-50.00, 50.00] settling on Dec 30/31 2019 or Jan 1/2 2020 "
               "(symbolic, non-decreasing), trade date = the day before settlement; unwind 5; rounding: |value| = m/10^(2+k), "
               "m 0..60000, k 1..3, either sign"),
    "outside": ("more than 3 rows / 2 years; the aggregate over securities (calc_cumulative_capital_gains: 21 GB in "
                "CBMC, not claimed); rendering and rounding of the figures (Decimal Display, tabled: not encodable)"),
}
PROPS["C07"] = {
    "quick": [{"name": "order", "harnesses": ["c07_tx_ord_is_date_then_index", "c07_sort3_is_stable_by_date_then_index"],
               "jobs": 2}],
    "thorough": [{"name": "order", "harnesses": ["c07_tx_ord_is_date_then_index", "c07_sort3_is_stable_by_date_then_index"],
                  "jobs": 2}],
    "functions": ["<Tx as Ord>::cmp / PartialOrd", "<CsvTx as Ord>::cmp", "Vec<Tx>::sort (std driftsort/smallsort) on 3 rows",
                  "Tx::to_csvtx"],
    "bounds": ("two rows with symbolic settlement day over 2019-12-30..2020-01-03, read index 0..70000, trade dates in "
               "the opposite order; sort: three rows, symbolic days 1..3, every assignment of read indices 0,1,2"),
    "outside": ("more than 3 rows in one sort; the CSV text layer (header case/padding, column permutation, unknown "
                "columns, read-index assignment across files): parse_tx_csv sits behind csv::Reader, not encodable"),
}
PROPS["C11"] = {
    "quick": [{"name": "struct", "harnesses": ["c11_roundtrip_buy_sell", "c11_roundtrip_roc_sfla_split"], "jobs": 2, "mem_gb": 30}],
    "thorough": [{"name": "struct", "harnesses": ["c11_roundtrip_buy_sell", "c11_roundtrip_roc_sfla_split"], "jobs": 2, "mem_gb": 30}],
    "functions": ["Tx::to_csvtx", "populate_csvtx_fields_from_action_specifics", "<Tx as TryFrom<CsvTx>>::try_from",
                  "buy_or_sell_common_attrs_from_csv_tx", "get_valid_exchange_rate", "CurrencyAndExchangeRate::try_new"],
    "bounds": ("every action; shares/price/commission/amounts 16-bit mantissas at scales 2-4; CAD or USD with symbolic "
               "rate, optional separate commission currency (CAD or USD), optional superficial-loss marker with force "
               "flag, split ratios 1..100 with reverse_integer_only symbolic, default/b/global affiliate; unwind 5/12"),
    "outside": ("the text layer: csv::Writer/Reader, to_string_min_precision and SplitRatio::parse (regex), 28-digit "
                "Display/from_str, memo quoting, byte-identical rewrite -- library state machines that do not get "
                "through CBMC"),
}
PROPS["C15"] = {
    "quick": [{"name": "splits", "harnesses": ["c15_w_sale_split_buy"], "jobs": 1,
               "mem_gb": 28, "harness_timeout_s": 2400, "cbmc_args": ["--max-field-sensitivity-array-size", "400"]}],
    "thorough": [{"name": "splits", "harnesses": ["c15_w_buy_split_sale", "c15_w_sale_split_buy", "c15_w_otherbuy_othersplit_sale"] + C01_SPLIT, "jobs": 3, "mem_gb": 28,
                  "timeout_s": 20000, "harness_timeout_s": 6000}],
    "functions": WINDOW_FUNCS + ["delta_for_tx (Split arm)", "SplitRatio::pre_to_post_factor"],
    "bounds": ("window shapes: Buy x, m-for-1 split (m 1..3), loss sale [by the seller, or both by another affiliate]; "
               "loss sale (possibly of everything), 2-for-1 or 1-for-1 split, Buy y; rows at symbolic offsets 0..35/0..45 "
               "days on their side of the sale; thorough adds the Split step: a-for-b, a,b in 1..9, balances in tenths "
               "of a share; " + WINDOW_BOUNDS),
    "outside": ("restating a whole history and comparing the two runs (pipeline level) was not encoded: the claim is the "
                "per-row Split rule (shares x a/b, total cost unchanged) and the split-adjusted window counts; reverse "
                "and fractional ratios inside the window are only in the C04 look-ahead harness; global-split expansion "
                "is checked under C09"),
}
PROPS["C16"] = {
    "quick": [{"name": "state", "harnesses": ["c16_opening_status_equals_opening_buy"], "jobs": 1}],
    "thorough": [{"name": "state", "harnesses": ["c16_opening_status_equals_opening_buy"], "jobs": 1}],
    "functions": ["AffiliatePortfolioSecurityStatuses::new (with initial status)", "delta_for_tx (Buy)",
                  "set_latest_post_status", "get_next_pre_status", "get_latest_post_status"],
    "bounds": ("opening position n = 1..7 (thorough 1..63) whole shares, total cost 0..2.55 (40.00); compared with "
               "an opening purchase of n shares whose total cost is the same amount; the state is read back through "
               "every affiliate (default, b, registered)"),
    "outside": ("zero-share opening positions (no purchase equivalent), fractional shares; the 'dated more than 30 days "
                "before' clause (the window scan never reaches such a row: C02 harnesses place rows up to 35 days out); "
                "parse_initial_status (str::split/trim/Decimal::from_str over symbolic bytes: not attempted); lookup of "
                "other securities' opening positions in approot (async, csv readers)"),
}

# ---------------------------------------------------------------------------
# Claim texts (MANIFEST.level_claimed.text / level_note) per claimed property.
TRUSTED = ("Trusted base: decimal model crate instead of rust_decimal (exact i64-mantissa arithmetic, 6-digit half-even rounded "
           "division), 4-slot map model instead of std HashMap/HashSet, formatting and Affiliate::from_strep stubs; "
           "a counterexample is reported only after the same harness fails natively against the real crates. ")
CLAIMS = {
    "C01": {
        "text": ("Bounded model checking (Kani/CBMC) of the real delta_for_tx from an arbitrary valid portfolio state: for "
                 "every Buy/Sell/RoC/SfLA/Split with symbolic amounts, rates and flags inside the stated ranges the solver "
                 "shows the reported balance, all-affiliate balance, ACB and gain equal the average-cost rule (aligned with "
                 "the model's rounded quotient), per affiliate, registered = shares only; plus the CsvTx defaults. "
                 "Histories of any length follow by induction over the checked state invariant (paper step); that is why "
                 "one step from any state is the right unit and a sampled history is not."),
        "note": (TRUSTED + "Superficial-loss scan stubbed to 'not superficial' in the sell step (C02 owns it). Shapes "
                 "fixed per harness; value ranges in evidence.bounds; the 1e-9 clause is carried from 6 to 28 digits on "
                 "paper."),
        "design_ref": "DESIGN.md 0, 5 C01",
    },
    "C02": {
        "text": ("Bounded model checking of the real window scan + ratio computation around a loss sale: neighbours at "
                 "every settlement offset 0..35 days on either side (so the 30/31-day boundary and same-day file order "
                 "are decided, not sampled), symbolic share counts; oracle = the statement (in-window iff |days|<=30, "
                 "superficial iff acquired>0 and held>0, numerator = min(sold, acquired, held), per-buyer portions, "
                 "over-applied flag). Thorough adds other-affiliate / registered-buyer / later-sale shapes and the "
                 "clause that a later sale inside the window reduces the holdings."),
        "note": (TRUSTED + "Quick tier = one shape (Buy, loss sale, Buy by the seller) with offsets 0..32 and 1..7 shares, "
                 "sized to finish inside 15 minutes on a loaded machine; the other four shapes (incl. Buy and Sell by "
                 "another affiliate before the sale) and the wider ranges are "
                 "thorough-tier only (10-20 GB and 10+ min each). NOT covered: the denied amount (loss x ratio with the "
                 "effective-cent rule), 'gain = loss - denied' and the validation of a user-supplied superficial loss "
                 "(0.001 tolerance, '!'): get_delta_superficial_loss_info did not get through CBMC in any configuration "
                 "(DESIGN.md 0.6); the rounding helper it uses is checked under C05."),
        "design_ref": "DESIGN.md 0, 5 C02",
    },
    "C06": {
        "text": ("Bounded model checking of calc_security_cumulative_capital_gains on 3 hand-built rows with symbolic "
                 "optional gains settling around a year boundary (trade date in the previous year): yearly figures keyed "
                 "by settlement year, total = sum of rows = sum of years, no entry for a year without gains; and of the "
                 "cent rounding applied to displayed figures (half away from zero, by value: it cannot feed back)."),
        "note": (TRUSTED + "Only the per-security sums are claimed. The aggregate over securities did not fit (21 GB) and "
                 "the text produced by dollar_precision_str (format!(\"{:.2}\") over Display) ran out of memory with the real "
                 "formatting machinery: both are outside this check."),
        "design_ref": "DESIGN.md 0, 5 C06",
    },
    "C07": {
        "text": ("Bounded model checking of Ord for Tx/CsvTx (equals the (settlement date, read index) tuple order for "
                 "every pair, trade dates irrelevant) and of Vec<Tx>::sort on 3 rows with symbolic dates and every "
                 "assignment of read indices: output ordered by (date, index), same rows, each with its own date."),
        "note": (TRUSTED + "The CSV-text clauses (header case/padding, column permutation, unknown columns, file "
                 "partition) are not covered: parse_tx_csv is behind csv::Reader."),
        "design_ref": "DESIGN.md 0, 5 C07",
    },
    "C11": {
        "text": ("Bounded model checking of the struct layer of the round trip: for every action and symbolic decimal "
                 "fields, currencies/rates, separate commission currency, superficial-loss marker with force flag, split "
                 "ratio with reverse_integer_only, default/other/global affiliate: Tx::try_from(tx.to_csvtx()) == tx, and "
                 "the rate column is omitted exactly for CAD."),
        "note": (TRUSTED + "The text layer (csv crate, regex-based to_string_min_precision and SplitRatio::parse, "
                 "Display/from_str of 28-digit decimals, memo quoting, byte-identical rewrite) is not covered."),
        "design_ref": "DESIGN.md 0, 5 C11",
    },
    "C15": {
        "text": ("Bounded model checking of the window scan with a split on either side of the loss sale at symbolic "
                 "offsets (split of the seller's or of another affiliate's shares between an acquisition and the sale; "
                 "sale, split, re-purchase): acquired and held shares are counted in the sale's split period, giving the "
                 "same verdict and ratio as the statement's restated history. Thorough adds the Split row itself (balance x "
                 "post/pre, all-affiliate total adjusted, total cost unchanged), which the quick tiers of C01/C04 also run."),
        "note": (TRUSTED + "Value-neutrality of a whole restated history is argued from these two lemmas (per-row rule + "
                 "window counts), not run end to end. The look-ahead with inexact ratios is finding F1 (C04)."),
        "design_ref": "DESIGN.md 0, 5 C15",
    },
    "C16": {
        "text": ("Bounded model checking that seeding the ledger with an opening status (n shares, total cost c) and "
                 "processing an opening purchase of n shares costing c from the empty ledger leave the same state for "
                 "every affiliate (balance, all-affiliate total, cost base, latest status); every later row is a function "
                 "of that state (C01 step harnesses)."),
        "note": (TRUSTED + "parse_initial_status, the per-security lookup in approot and the 30-day distance of the "
                 "equivalent purchase are outside the check."),
        "design_ref": "DESIGN.md 0, 5 C16",
    },
}

NOT_APPLICABLE = {
    "C14": ("crash points of a file write are defined by the OS file system, not by code the solver executes; Kani has no "
            "file-system model and a check that cannot tell an atomic-rename repair from the current code is not a check "
            "(DESIGN.md 5 C14)"),
}
for _p in ["C03", "C04", "C05", "C08", "C09", "C10", "C12", "C13", "C17", "C18", "C19", "C20"]:
    NOT_APPLICABLE.setdefault(_p, "harness family not built yet in this round (work in progress; see DESIGN.md 0 and 5)")

PROPS["C10"] = {
    "quick": [{"name": "summary", "harnesses": ["c10_summary_buy_not_in_later_loss_window", "c10_summary_buy_reproduces_state"],
               "jobs": 2}],
    "thorough": [{"name": "summary", "harnesses": ["c10_summary_buy_not_in_later_loss_window", "c10_summary_buy_reproduces_state"],
                  "jobs": 2}],
    "functions": ["portfolio::summary::get_summary_range_delta_indicies", "portfolio::summary::make_simple_summary_txs",
                  "TxDelta::is_superficial_loss", "get_first_day_in_superficial_loss_period"],
    "bounds": ("history Buy 10 / Sell 2 at a gain / Sell 5 at a non-superficial loss by the default affiliate on symbolic "
               "days a<b<c of 2020 (1..200), summary date s in [b,c); state lemma: balance 1..15, ACB 0..10.00"),
    "outside": ("make_annual_gains_summary_txs, several affiliates, re-emission of unsummarisable rows, the CSV writer; "
                "the re-run of the summary through the ledger is argued from C01/C02 (same state, same window rule), "
                "not executed"),
}

CLAIMS["C10"] = {
    "text": ("Bounded model checking of the summary-range computation and the summary Buy: for the history Buy / Sell at a "
             "gain / Sell at a loss that the full run allows, on symbolic dates and every summary date between the two "
             "sales, the opening Buy the summary emits must carry the summarised balance and must not be dated inside the "
             "30-day window of the later loss sale (else the re-run denies a loss the full history allowed); and the Buy "
             "reproduces balance and cost base up to one division's rounding."),
    "note": (TRUSTED + "Two lemmas over summary.rs; the re-run itself is not executed. Annual-gains mode and multi-affiliate "
             "summaries are outside the check."),
    "design_ref": "DESIGN.md 0, 5 C10",
}
NOT_APPLICABLE.pop("C10", None)

BIG = ["--max-field-sensitivity-array-size", "4096"]
COST_FUNCS = ["portfolio::bookkeeping::costs::{calc_total_costs,calc_max_day_cost_per_sec,calc_yearly_max_cost_day}",
              "MaxSingleDayCosts::{new,observe_new_cost}", "Affiliate::is_default (real ids)"]
PROPS["C17"] = {
    "quick": [{"name": "costs", "harnesses": ["c17_carry_forward_closing_value", "c17_other_affiliates_ignored"], "jobs": 2,
               "cbmc_args": BIG}],
    "thorough": [{"name": "costs", "harnesses": ["c17_carry_forward_closing_value", "c17_other_affiliates_ignored"],
                  "jobs": 2, "cbmc_args": BIG}],
    "functions": COST_FUNCS,
    "bounds": ("security A settling twice on one day (cost a0 -> a1 -> a2) and security B once on a later day "
               "(b0 -> b1), all costs symbolic 0..2.00, default affiliate; second harness: rows of affiliate b and of "
               "the registered affiliate next to a default row; unwind 9 (real id 'default')"),
    "outside": ("more than 2 securities / 2 days / 3 rows; years without transactions; render_total_costs (tabled, "
                "Display)"),
}
CLAIMS["C17"] = {
    "text": ("Bounded model checking of calc_total_costs on hand-built deltas with symbolic cost bases: per day and "
             "security the highest cost after any transaction settling that day, otherwise the cost after the most "
             "recent earlier transaction (the closing value, not the earlier day's maximum), opening cost before the "
             "first; row total = sum; yearly row = a day with maximal total; other affiliates' rows listed as ignored "
             "and changing no figure."),
    "note": (TRUSTED + "Shapes fixed (2 securities, 2 days); rendering of the table is outside the check."),
    "design_ref": "DESIGN.md 0, 5 C17",
}
NOT_APPLICABLE.pop("C17", None)

SMALL = ["--max-field-sensitivity-array-size", "400"]
PROPS["C08"] = {
    "quick": [{"name": "split", "harnesses": shapes("c08_split_by_security_", ["aab", "aba", "baa", "aaa", "abb", "bab", "bba", "bbb"]),
               "jobs": 8, "cbmc_args": BIG}],
    "thorough": [{"name": "split", "harnesses": shapes("c08_split_by_security_", ["aab", "aba", "baa", "aaa", "abb", "bab", "bba", "bbb"]),
                  "jobs": 8, "cbmc_args": BIG}],
    "functions": ["portfolio::misc::split_txs_by_security"],
    "bounds": ("3 rows over securities A/B: all 8 assignments of rows to securities (one harness each), symbolic "
               "settlement days 1..300 and strictly increasing read indices 0..1000 inside each"),
    "outside": ("more than 3 rows / 2 securities; the loop of approot over the per-security lists and the aggregate "
                "gains (async, csv readers, 21 GB for calc_cumulative_capital_gains): independence of a security's table "
                "from other securities' rows is argued from the partition (each txs_to_delta_list call receives only its "
                "own rows) and is not itself decided by the solver"),
}
CLAIMS["C08"] = {
    "text": ("Bounded model checking of split_txs_by_security: for every assignment of 3 rows to 2 securities and symbolic "
             "dates / read indices, each security's list is exactly its own rows, in input order, with their own dates; "
             "no row lost, duplicated or moved to another security."),
    "note": (TRUSTED + "Only the partition step is decided. That a failing security does not disturb another one "
             "follows from the per-security call structure of approot (read, not solved); the aggregate-gains clause is "
             "not covered."),
    "design_ref": "DESIGN.md 0, 5 C08",
}
NOT_APPLICABLE.pop("C08", None)

PROPS["C18"] = {
    "quick": [{"name": "fx", "harnesses": ["c18_fxt_pair", "c18_brokertx_order_total", "c18_implicit_fx_one_trade"], "jobs": 3,
               "cbmc_args": BIG}],
    "thorough": [{"name": "fx", "harnesses": ["c18_fxt_pair", "c18_brokertx_order_total", "c18_implicit_fx_one_trade"], "jobs": 3,
                  "cbmc_args": BIG}],
    "functions": ["peripheral::broker::fx_tracker::FxTracker::{new,add_fxt_row,get_fx_txs,fx_tx}",
                  "<BrokerTx as Ord>::cmp", "<BrokerTx as Into<CsvTx>>::into", "<Tx as TryFrom<CsvTx>>::try_from"],
    "bounds": ("one FXT pair: both legs with symbolic currency (CAD/USD), sign, amount 0.01..20.00 and day (2 values); "
               "BrokerTx order: 3 rows with symbolic day, timestamp, tiebreak (none/1/2) and row number"),
    "outside": ("sheet_to_txs / read_sheet_header (office::Range has no public constructor; regex per row), implicit FX "
                "rows for trades and dividends (add_implicit_fxt: out of memory in CBMC at 24 GB), option handling of "
                "tx-export-convert, column-layout independence"),
}
CLAIMS["C18"] = {
    "text": ("Bounded model checking of the currency-conversion tracker: a pair of FXT rows yields exactly one USD.FX row "
             "with the USD leg's absolute amount, Buy iff USD was received, the rate |CAD/USD| of its two legs, dated as "
             "the pair, accepted by Tx::try_from; any pair that is not one CAD and one USD leg of opposite sign on the "
             "same day is an error and its legs are not reused; an unpaired leg is an error. BrokerTx ordering is "
             "antisymmetric and transitive with FX buys before FX sells on ties. A single USD trade yields one implicit USD.FX row "
             "of exactly its net USD cash flow (none when that is zero)."),
    "note": (TRUSTED + "The spreadsheet reader, the per-activity conversion and the implicit FX rows of USD trades are "
             "outside the check (see evidence.outside_bounds)."),
    "design_ref": "DESIGN.md 0, 5 C18",
}
NOT_APPLICABLE.pop("C18", None)

PROPS["C04"] = {
    # quick: the known-finding harness (its own group: playback up front) and the
    # cheap rejection steps; the exact-ratio look-ahead and the sell/RoC steps
    # with symbolic amounts are in the thorough tier (and C01/C03 quick)
    "quick": [{"name": "lookahead-known", "harnesses": ["c04_lookahead_split_sell_one_for_three"],
               "jobs": 1, "cbmc_args": SMALL, "mem_gb": 28, "harness_timeout_s": 2400},
              {"name": "steps", "harnesses": ["c01_roc_a2_m7", "c01_sfla_a2_m7", "c01_split_a2_m7", "c01_sell_a1_m1"],
               "jobs": 4}],
    "thorough": [{"name": "lookahead", "harnesses": ["c04_lookahead_split_sell_exact_ratio", "c04_lookahead_split_sell_one_for_three",
                                                    "c02_w_otherbuy_sale_sell"],
                  "jobs": 3, "cbmc_args": SMALL, "mem_gb": 28, "timeout_s": 20000, "harness_timeout_s": 6000},
                 {"name": "steps", "harnesses": ["c01_sell_a0_m1", "c01_sell_a0_m7", "c01_sell_a2_m7", "c01_roc_a0_m7", "c01_roc_a2_m7",
                                                "c01_sfla_a2_m7", "c01_split_a0_m7", "c01_split_a1_m3"],
                  "jobs": 8, "timeout_s": 14000, "harness_timeout_s": 4000}],
    "expect_covers": {"c01_roc_a2_m7": 1, "c01_sfla_a2_m7": 1, "c01_sfla_a0_m1": 1, "c01_sfla_a1_m3": 1,
                      "c01_sell_a1_m1": 1},
    "functions": STEP_FUNCS + WINDOW_FUNCS,
    "bounds": STEP_BOUNDS + "; look-ahead: loss sale, split of the seller's shares (post, pre in 1..4), later sale of 1..60 "
              "post-split shares, split and later sale at symbolic offsets 0..35/0..45 days",
    "outside": STEP_OUTSIDE + "; the output-mode clause (text / --csv-output-dir / render model: csv::Writer and tabled are "
               "not encodable; CsvWriter never writing table errors was seen by reading only); that the rows shown are a "
               "prefix of the ledger (txs_to_delta_list loop not encoded)",
}
CLAIMS["C04"] = {
    "text": ("Bounded model checking of the rejection rules: each step harness carries the biconditional (rejected iff more "
             "sold than held / RoC above the cost base / RoC or SfLA on a registered affiliate / whole-number reverse split "
             "leaving a fraction), non-negative balances, all-affiliate total = sum, registered = no cost base and no gain; "
             "the window look-ahead harness shows the scan rejects only when a later sale inside the window exceeds the "
             "holdings, in exact split-period arithmetic."),
    "note": (TRUSTED + "Known finding F1 is reported by the any-ratio look-ahead harness (rounded split factors reject a "
             "covered sale). Output modes, the 'correct prefix' clause and exclusion from totals are not covered."),
    "design_ref": "DESIGN.md 0, 5 C04, 7",
}
NOT_APPLICABLE.pop("C04", None)

PROPS["C20"] = {
    "quick": [{"name": "chunks", "harnesses": ["c20_page_chunks_cover_every_page_once_or_more"], "jobs": 1,
               "features": "pdf_parse", "cbmc_args": SMALL, "mem_gb": 28}],
    "thorough": [{"name": "chunks", "harnesses": ["c20_page_chunks_cover_every_page_once_or_more"], "jobs": 1,
                  "features": "pdf_parse", "cbmc_args": SMALL, "mem_gb": 28}],
    "functions": ["peripheral::pdf::LazyPageTextVec::safe_page_chunks_with_remainder_pn"],
    "bounds": ("documents of 0..4 pages; two hint groups of two page numbers each, every number symbolic in 0..6 (so 0, "
               "out-of-range numbers and duplicates are inside); unwind 6"),
    "outside": ("more than 4 pages / 2x2 hints; OptimizedPageIter (needs a lopdf::Document); the allocation-table parser "
                "FmvParseSm / parse_statement_text (regex-driven state machine over extracted text: not encodable)"),
}
CLAIMS["C20"] = {
    "text": ("Bounded model checking of the page-hint sanitiser: for every page count up to 4 and every pair of hint groups "
             "with symbolic page numbers (including 0, out-of-range and repeated numbers) the chunks returned contain only "
             "existing pages, contain every page of the document at least once (exactly once when hinted at most once), "
             "and keep the hinted order inside a group."),
    "note": (TRUSTED + "Only the page-chunk clause of C20 is covered; the statement-text parser is outside the check."),
    "design_ref": "DESIGN.md 0, 5 C20",
}
NOT_APPLICABLE.pop("C20", None)

PROPS["C05"] = {
    "quick": [{"name": "rounding", "harnesses": ["c05_effective_cent_rounding_never_panics"], "jobs": 1, "cbmc_args": BIG}],
    "thorough": [{"name": "rounding", "harnesses": ["c05_effective_cent_rounding_never_panics"], "jobs": 1, "cbmc_args": BIG}],
    "functions": ["util::math::{c_maybe_round_to_effective_cent,maybe_round_to_effective_cent,round_to_cent}",
                  "ConstrainedDecimal::<Neg|Pos>::try_from",
                  "every other claimed check also has unwrap/expect/assert!/panic! reachability on for the functions it encodes"],
    "bounds": ("amounts +/- m x 10^-s, m 1..60000, s 0..12 (cents down to the residue of a division); thorough: the same "
               "through get_delta_superficial_loss_info on a 2-row history"),
    "outside": ("'whatever the bytes': CSV text, option strings, spreadsheets and PDF text (csv-core DFA, regex, clap, time "
                "format parser are not executable under CBMC at useful sizes); magnitudes up to 10^12 with 10 decimals "
                "exceed the 62-bit model mantissa; rust_decimal-internal overflow and scale exhaustion are invisible to "
                "the model"),
}
CLAIMS["C05"] = {
    "text": ("Bounded model checking of panic-freedom where the post-parse core takes arbitrary computed values: the "
             "effective-cent rounding applied to every denied loss (negative and positive amounts from cents down to "
             "1e-12) never trips its constraint unwrap and obeys the rounding rule. In every other claimed check "
             "unwrap/expect/assert!/panic!/index reachability is on, so C01-C04, C06-C08, C10, C11, C15-C18, C20 double "
             "as panic-freedom checks for the functions they encode."),
    "note": (TRUSTED + "The byte-level front ends (CSV, options, spreadsheets, PDF text) and full numeric ranges are "
             "outside the check."),
    "design_ref": "DESIGN.md 0, 5 C05",
}
NOT_APPLICABLE.pop("C05", None)

PROPS["C03"] = {
    "quick": [{"name": "portions", "harnesses": ["c02_w_otherbuy_sale_sell", "c01_sfla_a0_m1", "c01_sfla_a2_m7"], "jobs": 3,
               "cbmc_args": SMALL, "mem_gb": 28, "harness_timeout_s": 2400}],
    "thorough": [{"name": "portions", "harnesses": ["c02_w_otherbuy_sale_sell", "c02_w_regbuy_sale_otherbuy_othersell",
                                                    "c03_lemma_buy_buy_sale_sell"],
                  "jobs": 2, "cbmc_args": SMALL, "mem_gb": 28, "timeout_s": 20000, "harness_timeout_s": 6000},
                 {"name": "rows", "harnesses": C01_SFLA + ["c01_sell_a0_m1", "c01_sell_a1_m3", "c01_buy_a0_m7", "c01_roc_a0_m1"],
                  "jobs": 7, "timeout_s": 14000, "harness_timeout_s": 4000}],
    "expect_covers": {"c01_roc_a2_m7": 1, "c01_sfla_a2_m7": 1, "c01_sfla_a0_m1": 1, "c01_sfla_a1_m3": 1,
                      "c01_sell_a1_m1": 1},
    "functions": WINDOW_FUNCS + STEP_FUNCS,
    "bounds": WINDOW_BOUNDS + "; rows: " + STEP_BOUNDS,
    "outside": ("the loop of get_delta_superficial_loss_info that turns the portions into SfLA rows (skip of zero "
                "portions and of registered buyers, amount = |denied| x portion) and the injection of those rows by "
                "txs_to_delta_list: neither got through CBMC (DESIGN.md 0.6), so 'added exactly once, in full' is "
                "decided only up to the portions and for a given SfLA row; telescoping of the per-row identities over a "
                "history is a paper step"),
}
CLAIMS["C03"] = {
    "text": ("Bounded model checking of the two ends of the redistribution: (a) the window scan's per-buyer portions -- each "
             "buying affiliate's end-of-window holding over the buyers' total, registered buyers included in the ratio, the "
             "'potentially over-applied' flag exactly when the buyers hold less than the denied share count; (b) the ledger "
             "rows -- an SfLA row adds exactly its amount to its affiliate's cost base, is rejected for a registered "
             "affiliate, and a sale realises proceeds - commission - removed cost, so every row satisfies the local "
             "conservation identity."),
    "note": (TRUSTED + "NOT covered: the conversion of the portions into adjustment rows and their injection after the "
             "sale (see evidence.outside_bounds); histories are covered by telescoping the per-row identity on paper."),
    "design_ref": "DESIGN.md 0, 0.6, 5 C03",
}
NOT_APPLICABLE.pop("C03", None)

NOT_APPLICABLE.update({
    "C09": ("the two encodable sites where hash iteration reaches output were put before the solver and gave no verdict: "
            "replace_global_security_splits run twice on a 3-row history (Vec<Tx> remove/insert of ~260-byte rows: 30 min "
            "time-out in both field-sensitivity settings) and calc_yearly_max_cost_day run twice (out of memory at 24 GB); "
            "the third site (approot's cross-security delta order) sits behind async CSV readers; see DESIGN.md 0.6. The "
            "defects are visible by reading (unsorted HashSet in splits.rs:91, strict '<' tie in costs.rs) but are not "
            "reported as findings because no check decides them."),
    "C12": ("RateLoader::get_effective_usd_cad_rate with a harness-defined remote loader on a 4-day calendar: builds under "
            "Kani only after stubbing today_local (chrono's clock trips a kani-compiler ICE), then no verdict within 25 min "
            "(async state machines through Box<dyn Future>/Box<dyn RatesCache>, Julian-day arithmetic of the 7-day look-back); "
            "parse_rates_json (json crate) and the row-level currency rules sit behind it; DESIGN.md 0.6"),
    "C13": ("same code path as C12 with two loaders over one cache: the single-loader harness already gives no verdict in "
            "25 min (DESIGN.md 0.6); the CSV-file cache is file I/O"),
    "C19": ("find_sell_to_cover_trade_set / amend_benefit_sales build nested Vec<Vec<&BrokerTx>> through itertools "
            "combinations under symbolic conditions; the much simpler FxTracker::add_implicit_fxt on two ~350-byte BrokerTx "
            "rows already exhausts 24 GB in CBMC, and the text layer is regex (etrade.rs); not attempted further"),
    "C20": ("safe_page_chunks_with_remainder_pn on <=4 pages and 2x2 symbolic hints runs out of memory at 20 and 28 GB "
            "(nested Vec<Vec<u32>> with symbolic lengths); the allocation-table parser is a regex-driven state machine over "
            "extracted PDF text and OptimizedPageIter needs a lopdf::Document: nothing of C20 is decided, so it is not claimed"),
})
for _p in ("C20",):
    PROPS.pop(_p, None)
    CLAIMS.pop(_p, None)

PROPS["C20"] = {
    "quick": [{"name": "chunks", "harnesses": ["c20_page_chunks_small"], "jobs": 1, "features": "pdf_parse",
               "cbmc_args": SMALL, "mem_gb": 24}],
    "thorough": [{"name": "chunks", "harnesses": ["c20_page_chunks_small"], "jobs": 1, "features": "pdf_parse",
                  "cbmc_args": SMALL, "mem_gb": 24}],
    "functions": ["peripheral::pdf::LazyPageTextVec::safe_page_chunks_with_remainder_pn"],
    "bounds": ("documents of 0..3 pages; one hint group of two page numbers, each symbolic in 0..4 (so 0, out-of-range "
               "numbers and a repeated number are inside); unwind 5"),
    "outside": ("more than 3 pages or more than one hint group (4 pages with groups [h0,h1],[h2] ran out of memory at "
                "24 GB, 2x2 hints at 28 GB); OptimizedPageIter (needs a lopdf::Document); the allocation-table parser "
                "FmvParseSm / parse_statement_text (regex-driven state machine over extracted text: not encodable)"),
}
CLAIMS["C20"] = {
    "text": ("Bounded model checking of the page-hint sanitiser on small documents: for every page count up to 3 and every "
             "pair of hinted page numbers (including 0, out-of-range and repeated numbers) the chunks returned contain only "
             "existing pages and contain every page of the document at least once (exactly once when hinted at most once)."),
    "note": (TRUSTED + "Only the page-chunk clause of C20 is covered, on very small instances; the statement-text parser "
             "(every holding exactly once, totals, month) is outside the check."),
    "design_ref": "DESIGN.md 0.6, 0.7",
}
NOT_APPLICABLE.pop("C20", None)

for _p in ("C03", "C04", "C15"):
    PROPS[_p]["sequential_tiers"] = ("thorough",)

# One line per harness: what the solver query quantifies over (goes into the
# evidence samples).
def _step_doc(action):
    return ("delta_for_tx on one symbolic %s row from an arbitrary valid state; shape suffix aX_mY = acting affiliate X "
            "(0 default, 1 b, 2 registered), mask Y of affiliates that transacted before (bit0 default, bit1 b, bit2 registered)" % action)

HARNESS_DOC = {}
for _n in C01_BUY: HARNESS_DOC[_n] = _step_doc("Buy")
for _n in C01_SELL: HARNESS_DOC[_n] = _step_doc("Sell (window scan stubbed to 'not superficial')")
for _n in C01_ROC: HARNESS_DOC[_n] = _step_doc("RoC")
for _n in C01_SFLA: HARNESS_DOC[_n] = _step_doc("SfLA")
for _n in C01_SPLIT: HARNESS_DOC[_n] = _step_doc("Split (balances in tenths of a share)")
HARNESS_DOC.update({
    "c01_csvtx_defaults": "Tx::try_from on a sparse Buy/Sell CsvTx with symbolic presence of commission / currency / rate",
    "c02_w_buy_sale_buy": "rows [Buy(default) at -o1, loss sale(default) day 100, Buy(default) at +o2], o1,o2 in 0..35, symbolic trade dates, shares 1..15",
    "c02_w_otherbuy_othersell_sale": "rows [Buy(b) at -o0, Sell(b) at -o1 (possibly everything), loss sale(default)], symbolic offsets and counts",
    "c02_w_otherbuy_sale_sell": "rows [Buy(b) at -o1, loss sale(default), later Sell(default) at +o2]: look-ahead, portions, over-applied flag",
    "c02_w_regbuy_sale_otherbuy_othersell": "rows [Buy(registered) at -o0, loss sale(default), Buy(b) at +o1, Sell(b) at +o2]: registered buyer, portions of two buyers",
    "c02_lemma_buy_sale": "rows [Buy(default) day 95, loss sale(default) day 100] with symbolic counts: full result of the scan",
    "c03_lemma_buy_buy_sale_sell": "rows [Buy(default) day 91, Buy(b) day 95, loss sale(default) day 100, Sell(b) day 103]: ratio and both portions",
    "c04_lookahead_split_sell_exact_ratio": "rows [loss sale, Split post-for-pre with post,pre in {1,2,4}, later Sell z]: rejected iff z*pre > held*post",
    "c04_lookahead_split_sell_one_for_three": "same with the 1-for-3 split of known finding F1 (expected to fail at the listed site)",
    "c05_effective_cent_rounding_never_panics": "c_maybe_round_to_effective_cent on +/- m*10^-s, m 1..60000, s 0..12",
    "c06_year_sums_3": "calc_security_cumulative_capital_gains on 3 deltas, symbolic optional gains, settlement days around New Year",
    "c06_round_to_cent_is_half_away_from_zero": "round_to_cent on +/- m/10^(2+k), m 0..60000, k 1..3",
    "c07_tx_ord_is_date_then_index": "Tx/CsvTx cmp on two rows with symbolic settlement day and read index, trade dates reversed",
    "c07_sort3_is_stable_by_date_then_index": "Vec<Tx>::sort on 3 rows, symbolic days, every assignment of read indices",
    "c10_summary_buy_not_in_later_loss_window": "get_summary_range_delta_indicies + make_simple_summary_txs on Buy / Sell(gain) / Sell(loss of k of 8 shares), symbolic days and summary date, another affiliate holding 0..3",
    "c10_summary_buy_reproduces_state": "make_simple_summary_txs on balance 1..15, ACB 0..10.00",
    "c11_roundtrip_buy_sell": "Tx -> CsvTx -> Tx for Buy/Sell with symbolic decimals, currencies, separate commission currency, SFL marker",
    "c11_roundtrip_roc_sfla_split": "Tx -> CsvTx -> Tx for RoC / SfLA / Split (symbolic ratio, integer-only flag, default or global affiliate)",
    "c15_w_buy_split_sale": "rows [Buy(default), m-for-1 Split(default), loss sale(default)] at symbolic offsets before the sale",
    "c15_w_sale_split_buy": "rows [loss sale (possibly of everything), 2-for-1 or 1-for-1 Split, Buy] at symbolic offsets after the sale",
    "c15_w_otherbuy_othersplit_sale": "rows [Buy(b), m-for-1 Split(b), loss sale(default)]: the split factor belongs to b",
    "c16_opening_status_equals_opening_buy": "statuses seeded with (n, cost) vs empty + Buy n for the same total cost, read back through a symbolic affiliate",
    "c17_carry_forward_closing_value": "calc_total_costs on A settling twice on day 1 and B once on day 2, five symbolic cost bases",
    "c17_other_affiliates_ignored": "calc_total_costs with rows of affiliate b and the registered affiliate next to a default row",
    "c18_fxt_pair": "FxTracker::add_fxt_row twice with symbolic currency, sign, amount and day of both legs",
    "c18_brokertx_order_total": "BrokerTx cmp on three rows with symbolic day, timestamp, tiebreak, row",
    "c18_implicit_fx_one_trade": "FxTracker::add_implicit_fxt on one USD buy or sell with symbolic shares, price, commission",
    "c20_page_chunks_small": "safe_page_chunks_with_remainder_pn for 0..3 pages and one hint group of two page numbers 0..4",
})
for _p in ["aab", "aba", "baa", "aaa", "abb", "bab", "bba", "bbb"]:
    HARNESS_DOC["c08_split_by_security_" + _p] = ("split_txs_by_security on 3 rows assigned to securities %s, symbolic sorted dates and increasing read indices" % _p.upper())

# Window harnesses (superficial_loss.rs) compile their cover witnesses out in
# the quick tier (wcover!, see the harness file): each witness is a separate
# SAT query over a 7M-variable formula and the first costs 250-550 s.  The
# thorough tier of the same harnesses keeps them.
QUICK_NO_COVERS = {"c02_w_buy_sale_buy", "c02_w_otherbuy_sale_sell", "c02_w_regbuy_sale_otherbuy_othersell",
                   "c02_w_otherbuy_othersell_sale", "c04_lookahead_split_sell_exact_ratio",
                   "c04_lookahead_split_sell_one_for_three", "c15_w_buy_split_sale", "c15_w_sale_split_buy",
                   "c15_w_otherbuy_othersplit_sale"}
