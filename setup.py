#!/usr/bin/env python3
"""MANIFEST.setup_cmd: warm the build caches under /verif/.cache from files on
disk only (offline). Every check rebuilds acb itself from /repo's current
working tree; only the dependency builds are reused."""
import os, subprocess, sys
import vlib

def run(cmd, cwd, env):
    print("+", " ".join(cmd), flush=True)
    p = subprocess.run(cmd, cwd=cwd, env=env, stdout=subprocess.PIPE, stderr=subprocess.STDOUT, text=True)
    if p.returncode != 0:
        print(p.stdout[-4000:])
    return p.returncode

def main():
    os.makedirs(vlib.CACHE, exist_ok=True)
    rc = 0
    d = vlib.stage("setup", "kani")
    try:
        rc |= run(["cargo", "kani", "--no-default-features", "--lib"] + vlib.KANI_FLAGS +
                  ["--target-dir", vlib.KANI_TARGET, "--only-codegen"], d, vlib.ENV)
    finally:
        vlib.cleanup(d)
    d = vlib.stage("setup-replay", "replay")
    env = dict(vlib.ENV)
    env["RUSTFLAGS"] = "--cfg verif_replay -A warnings"
    try:
        for extra in ([], ["--release"]):
            rc |= run(["cargo", "build", "--no-default-features", "--bin", "verif_replay",
                       "--target-dir", vlib.NATIVE_TARGET] + extra, d, env)
    finally:
        vlib.cleanup(d)
    print("setup", "ok" if rc == 0 else "FAILED")
    return 1 if rc else 0

if __name__ == "__main__":
    sys.exit(main())
