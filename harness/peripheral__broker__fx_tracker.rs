// Child module of src/peripheral/broker/fx_tracker.rs. C18: USD.FX rows
// conserve the USD cash flow; a conversion carries the rate implied by its two
// legs; malformed pairs are errors; emitted rows are accepted by acb.
#![allow(unused_imports, dead_code, unused_variables)]
use super::*;
use crate::kani_model::ks;
use crate::kani_model::mk::*;
use crate::vcover;

macro_rules! fx_harness {
    ($(#[$m:meta])* fn $name:ident() $body:block) => {
        #[cfg_attr(kani, kani::proof)]
        #[cfg_attr(kani, kani::stub(alloc::fmt::format, crate::kani_model::fmtm::format))]
        #[cfg_attr(kani, kani::stub(core::fmt::write, crate::kani_model::fmtm::write))]
        #[cfg_attr(kani, kani::stub(<time::Date as core::fmt::Display>::fmt, crate::kani_model::fmtm::date_display))]
        #[cfg_attr(kani, kani::stub(<rust_decimal::Decimal as core::fmt::Display>::fmt, crate::kani_model::fmtm::dec_display))]
        #[cfg_attr(kani, kani::stub(crate::portfolio::model::affiliate::Affiliate::from_strep,
                     crate::portfolio::model::affiliate::kani_harness::from_strep_stub))]
        $(#[cfg_attr(kani, $m)])*
        pub fn $name() $body
    };
}

fn acct() -> Account {
    Account { broker_name: "Q", account_type: "M".to_string(), account_num: "1".to_string() }
}
fn row(row_num: usize, is_cad: bool, day: i64, amount: Decimal) -> FxtRow {
    FxtRow {
        row_num,
        currency: if is_cad { Currency::cad() } else { Currency::usd() },
        affiliate: aff(0),
        trade_date: date(day),
        trade_date_and_time: "t".to_string(),
        amount,
        account: acct(),
    }
}
fn signed(neg: bool, m: i64, scale: u32) -> Decimal {
    if neg { dec(-m, scale) } else { dec(m, scale) }
}

fx_harness! {
    // mem::swap of an Option<FxtRow> is a loop over its 8-byte chunks
    #[kani::unwind(40)]
    fn c18_fxt_pair() {
        // two adjacent FXT rows in either order, symbolic currencies, signs, amounts, days
        let a_cad = ks::any_bool(); let b_cad = ks::any_bool();
        let a_neg = ks::any_bool(); let b_neg = ks::any_bool();
        let am = any_in(1, 2000); let bm = any_in(1, 2000);
        let da = any_in(10, 11); let db = any_in(10, 11);
        let a = signed(a_neg, am, 2); let b = signed(b_neg, bm, 2);
        let mut t = FxTracker::new();
        assert!(t.add_fxt_row(row(1, a_cad, da, a)).is_ok());
        // an unpaired FXT is an error, not a guess
        assert!(t.get_fx_txs().is_err());
        let r = t.add_fxt_row(row(2, b_cad, db, b));
        let r_ok = r.is_ok();
        core::mem::forget(r);
        let well_formed = (a_cad != b_cad) && da == db && (a_neg != b_neg);
        match r_ok {
            true => {
                vcover!("pair accepted");
                assert!(well_formed);
                let txs = t.get_fx_txs().ok().unwrap();
                assert!(txs.len() == 1);
                let x = &txs[0];
                let (cad_amt, usd_amt, usd_neg) = if a_cad { (a, b, b_neg) } else { (b, a, a_neg) };
                // signed USD.FX shares = the USD leg
                assert!(x.num_shares == usd_amt.abs());
                assert!((x.action == TxAction::Buy) == !usd_neg);
                assert!(x.amount_per_share == dec(1, 0));
                assert!(x.commission == dec(0, 0));
                // rate implied by the two legs
                assert!(x.exchange_rate == Some(logged_div(0, cad_amt, usd_amt).abs()));
                assert!(x.trade_date == date(da) && x.settlement_date == date(da));
                assert!(x.currency == Currency::usd());
                // accepted by acb
                let c: crate::portfolio::CsvTx = x.clone().into();
                assert!(crate::portfolio::Tx::try_from(c).is_ok());
            }
            false => {
                vcover!("pair rejected");
                assert!(!well_formed);
                // the failed pair is consumed: no stale leg is reused
                assert!(t.get_fx_txs().is_ok());
                assert!(t.get_fx_txs().ok().unwrap().is_empty());
            }
        }
        core::mem::forget(t);
    }
}

fn btx(is_buy: bool, shares: i64, price: i64, comm: i64) -> BrokerTx {
    BrokerTx {
        security: "S".to_string(),
        trade_date: date(10),
        settlement_date: date(12),
        trade_date_and_time: "t".to_string(),
        settlement_date_and_time: "t".to_string(),
        action: if is_buy { TxAction::Buy } else { TxAction::Sell },
        amount_per_share: dec(price, 2),
        num_shares: dec(shares, 0),
        commission: dec(comm, 2),
        currency: Currency::usd(),
        memo: "m".to_string(),
        exchange_rate: None,
        affiliate: aff(0),
        row_num: 7,
        account: acct(),
        sort_tiebreak: None,
        filename: None,
    }
}

fx_harness! {
    #[kani::unwind(8)]
    fn c18_implicit_fx_conserves_usd_cash() {
        // a USD buy and a USD sell: the USD.FX rows' signed share total equals
        // the net USD cash flow (sale proceeds - purchase cost - commissions)
        let s1 = any_in(1, 15); let p1 = any_in(0, 100); let c1 = any_in(0, 15);
        let s2 = any_in(1, 15); let p2 = any_in(0, 100); let c2 = any_in(0, 15);
        let mut t = FxTracker::new();
        assert!(t.add_implicit_fxt(&btx(true, s1, p1, c1)).is_ok());
        assert!(t.add_implicit_fxt(&btx(false, s2, p2, c2)).is_ok());
        let txs = t.get_fx_txs().ok().unwrap();
        vcover!("tracked");
        let mut total = dec(0, 0);
        for x in txs.iter() {
            assert!(x.security == "USD.FX");
            assert!(!x.num_shares.is_sign_negative() && !x.num_shares.is_zero());
            total = total + (if x.action == TxAction::Buy { x.num_shares } else { dec(0, 0) - x.num_shares });
            // FX buys sort before FX sells on ties
            assert!(x.sort_tiebreak == Some(if x.action == TxAction::Buy { 1 } else { 2 }));
            let c: crate::portfolio::CsvTx = x.clone().into();
            assert!(c.tx_curr_to_local_exchange_rate.is_none());
        }
        let flow = (dec(p2, 2) * dec(s2, 0) - dec(c2, 2)) + (dec(0, 0) - dec(p1, 2) * dec(s1, 0) - dec(c1, 2));
        assert!(total == flow);
        let cash1 = p1 * s1 + c1; // cents
        let cash2 = p2 * s2 - c2;
        assert!(txs.len() == (cash1 != 0) as usize + (cash2 != 0) as usize);
        core::mem::forget(t);
    }
}

fx_harness! {
    #[kani::unwind(8)]
    fn c18_implicit_fx_one_trade() {
        // one USD trade: the implicit USD.FX row carries exactly its net USD cash
        // flow (sale proceeds - commission, or -(cost + commission)); a zero net
        // flow produces no row
        let is_buy = ks::any_bool();
        let sh = any_in(0, 15); let p = any_in(0, 100); let c = any_in(0, 15);
        let mut t = FxTracker::new();
        let r = t.add_implicit_fxt(&btx(is_buy, sh, p, c));
        let ok = r.is_ok();
        core::mem::forget(r);
        assert!(ok);
        let txs = t.get_fx_txs().ok().unwrap();
        vcover!("tracked");
        let gross = dec(p, 2) * dec(sh, 0);
        let flow = if is_buy { dec(0, 0) - gross - dec(c, 2) } else { gross - dec(c, 2) };
        if flow.is_zero() {
            assert!(txs.is_empty());
        } else {
            assert!(txs.len() == 1);
            let x = &txs[0];
            assert!(x.num_shares == flow.abs());
            assert!((x.action == TxAction::Buy) == !flow.is_sign_negative());
            assert!(x.amount_per_share == dec(1, 0) && x.commission == dec(0, 0));
            assert!(x.exchange_rate.is_none());
            assert!(x.trade_date == date(10) && x.settlement_date == date(10));
        }
        core::mem::forget(t);
    }
}
