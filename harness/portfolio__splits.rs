// Child module of src/portfolio/splits.rs. C09: the expansion of a global
// split must not depend on HashSet iteration order; C15: one split row per
// affiliate, same date and ratio, other rows untouched.
#![allow(unused_imports, dead_code, unused_variables)]
use super::*;
use crate::kani_model::ks;
use crate::kani_model::mk::*;
use crate::vcover;

macro_rules! sp_harness {
    ($(#[$m:meta])* fn $name:ident() $body:block) => {
        #[cfg_attr(kani, kani::proof)]
        #[cfg_attr(kani, kani::stub(alloc::fmt::format, crate::kani_model::fmtm::format))]
        #[cfg_attr(kani, kani::stub(core::fmt::write, crate::kani_model::fmtm::write))]
        #[cfg_attr(kani, kani::stub(<time::Date as core::fmt::Display>::fmt, crate::kani_model::fmtm::date_display))]
        #[cfg_attr(kani, kani::stub(crate::portfolio::model::affiliate::Affiliate::from_strep,
                     crate::portfolio::model::affiliate::kani_harness::from_strep_stub))]
        $(#[cfg_attr(kani, $m)])*
        pub fn $name() $body
    };
}

fn history(day_split: i64) -> Vec<Tx> {
    vec![
        simple_buy(aff(0), date(10), 0),
        simple_buy(aff(1), date(11), 1),
        tx(Affiliate::global(), date(day_split), 2, split(pos(2, 0), pos(1, 0), false)),
        simple_buy(aff(0), date(60), 3),
    ]
}

sp_harness! {
    #[kani::unwind(12)]
    fn c09_global_split_order() {
        // Buy(default), Buy(b), global Split, Buy(default): the two per-affiliate
        // split rows must come out in the same order whatever the hash seed.
        let day = any_in(20, 40);
        let mut k = 0;
        while k < ks::repeats() {
            let mut a = history(day);
            let mut b = history(day);
            #[cfg(kani)]
            crate::kani_model::collections::set_order_nondet(true);
            let ra = replace_global_security_splits(&mut a);
            let rb = replace_global_security_splits(&mut b);
            vcover!("expanded twice");
            assert!(ra.is_ok() && rb.is_ok());
            assert!(a.len() == 5 && b.len() == 5);
            // C15: rows other than the split untouched and in place
            assert!(a[0].read_index == 0 && a[1].read_index == 1 && a[4].read_index == 3);
            // exactly one split per affiliate, same date, same ratio
            assert!(a[2].action() == TxAction::Split && a[3].action() == TxAction::Split);
            assert!(a[2].settlement_date == date(day) && a[3].settlement_date == date(day));
            assert!(a[2].affiliate != a[3].affiliate);
            assert!(!a[2].affiliate.is_global() && !a[3].affiliate.is_global());
            // C09: same input, same output
            assert!(a[2].affiliate == b[2].affiliate, "split rows ordered by hash iteration");
            assert!(a[3].affiliate == b[3].affiliate);
            core::mem::forget(a); core::mem::forget(b);
            k += 1;
        }
    }
}

// Minimal variant: the global split is the last row, so expanding it needs no
// memmove of later rows. First run: hash order chosen by the solver; second
// run: insertion order. An order-independent implementation gives the same
// rows in both; one that follows the set's iteration order does not.
fn history3(day_split: i64) -> Vec<Tx> {
    vec![
        simple_buy(aff(0), date(10), 0),
        simple_buy(aff(1), date(11), 1),
        tx(Affiliate::global(), date(day_split), 2, split(pos(2, 0), pos(1, 0), false)),
    ]
}

sp_harness! {
    #[kani::unwind(12)]
    fn c09_global_split_order_min() {
        // all dates concrete (the 1-day neighbourhood test does Julian-day
        // arithmetic on them); the quantified variable is the iteration order
        let day = 30;
        let salt = ks::any_bool(); // keeps a harness input for the replay protocol
        let mut k = 0;
        while k < ks::repeats() {
            let mut a = history3(day);
            let mut b = history3(day);
            #[cfg(kani)]
            crate::kani_model::collections::set_order_nondet(true);
            let ra = replace_global_security_splits(&mut a);
            #[cfg(kani)]
            crate::kani_model::collections::set_order_nondet(false);
            let rb = replace_global_security_splits(&mut b);
            vcover!("expanded twice");
            assert!(ra.is_ok() && rb.is_ok());
            assert!(a.len() == 4 && b.len() == 4);
            assert!(a[2].action() == TxAction::Split && a[3].action() == TxAction::Split);
            assert!(a[2].affiliate != a[3].affiliate);
            assert!(!a[2].affiliate.is_global() && !a[3].affiliate.is_global());
            assert!(a[2].affiliate == b[2].affiliate, "split rows ordered by hash iteration");
            assert!(a[3].affiliate == b[3].affiliate);
            core::mem::forget(a); core::mem::forget(b); core::mem::forget(ra); core::mem::forget(rb);
            k += 1;
        }
    }
}
