// Child module of src/peripheral/broker/broker_tx.rs. C18: BrokerTx ordering
// (settlement date, timestamp, FX buys before FX sells, row) is a total order.
#![allow(unused_imports, dead_code, unused_variables)]
use super::*;
use crate::kani_model::ks;
use crate::kani_model::mk::*;
use crate::vcover;
use std::cmp::Ordering;

macro_rules! bt_harness {
    ($(#[$m:meta])* fn $name:ident() $body:block) => {
        #[cfg_attr(kani, kani::proof)]
        #[cfg_attr(kani, kani::stub(alloc::fmt::format, crate::kani_model::fmtm::format))]
        #[cfg_attr(kani, kani::stub(core::fmt::write, crate::kani_model::fmtm::write))]
        #[cfg_attr(kani, kani::stub(crate::portfolio::model::affiliate::Affiliate::from_strep,
                     crate::portfolio::model::affiliate::kani_harness::from_strep_stub))]
        $(#[cfg_attr(kani, $m)])*
        pub fn $name() $body
    };
}

fn mk(day: i64, ts: bool, tb: i64, row: i64) -> BrokerTx {
    BrokerTx {
        security: "S".to_string(),
        trade_date: date(day),
        settlement_date: date(day),
        trade_date_and_time: String::new(),
        settlement_date_and_time: if ts { "b".to_string() } else { "a".to_string() },
        action: TxAction::Buy,
        amount_per_share: dec(1, 0),
        num_shares: dec(1, 0),
        commission: dec(0, 0),
        currency: Currency::usd(),
        memo: String::new(),
        exchange_rate: None,
        affiliate: aff(0),
        row_num: row as u32,
        account: Account { broker_name: "Q", account_type: "M".to_string(), account_num: "1".to_string() },
        sort_tiebreak: if tb == 0 { None } else { Some(tb as u32) },
        filename: None,
    }
}

bt_harness! {
    #[kani::unwind(5)]
    fn c18_brokertx_order_total() {
        // three rows with symbolic (day, timestamp, tiebreak, row): the comparison is
        // antisymmetric and transitive, and FX buys (1) come before FX sells (2) on ties
        let k = || (any_in(1, 2), ks::any_bool(), any_in(0, 2), any_in(0, 2));
        let (d1, t1, b1, r1) = k(); let (d2, t2, b2, r2) = k(); let (d3, t3, b3, r3) = k();
        let x = mk(d1, t1, b1, r1); let y = mk(d2, t2, b2, r2); let z = mk(d3, t3, b3, r3);
        vcover!("compared");
        let xy = x.cmp(&y); let yx = y.cmp(&x); let yz = y.cmp(&z); let xz = x.cmp(&z);
        assert!(xy == yx.reverse());
        if xy != Ordering::Greater && yz != Ordering::Greater {
            assert!(xz != Ordering::Greater, "BrokerTx order is not transitive");
        }
        if d1 == d2 && t1 == t2 && b1 == 1 && b2 == 2 {
            assert!(xy == Ordering::Less);
        }
        if d1 < d2 { assert!(xy == Ordering::Less); }
        core::mem::forget(x); core::mem::forget(y); core::mem::forget(z);
    }
}
