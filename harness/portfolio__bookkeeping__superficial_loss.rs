// Child module of src/portfolio/bookkeeping/superficial_loss.rs.
// C02: the 30-day window and the min(sold, acquired, held) ratio, decided on
// the real get_superficial_loss_ratio (= get_superficial_loss_info +
// calc_superficial_loss_ratio) for rows at every offset around a loss sale.
// C04: the look-ahead rejects only real over-sales. C15: splits in the window.
#![allow(unused_imports, dead_code, unused_variables)]
use super::*;
use crate::kani_model::ks;
use crate::kani_model::mk::*;
use crate::vcover;

macro_rules! sl_harness {
    ($(#[$m:meta])* fn $name:ident() $body:block) => {
        #[cfg_attr(kani, kani::proof)]
        #[cfg_attr(kani, kani::stub(alloc::fmt::format, crate::kani_model::fmtm::format))]
        #[cfg_attr(kani, kani::stub(core::fmt::write, crate::kani_model::fmtm::write))]
        #[cfg_attr(kani, kani::stub(<time::Date as core::fmt::Display>::fmt, crate::kani_model::fmtm::date_display))]
        #[cfg_attr(kani, kani::stub(<rust_decimal::Decimal as core::fmt::Display>::fmt, crate::kani_model::fmtm::dec_display))]
        #[cfg_attr(kani, kani::stub(crate::portfolio::model::affiliate::Affiliate::from_strep,
                     crate::portfolio::model::affiliate::kani_harness::from_strep_stub))]
        $(#[cfg_attr(kani, $m)])*
        pub fn $name() $body
    };
}

// The sale settles on day 100 of 2020 (concrete anchor: its window bounds fold
// to constants); every other row settles at a symbolic offset, so each distance
// ..,-31,-30,..,0,..,30,31,.. and both same-day file orders are inside the query.
const SALE_DAY: i64 = 100;
// quick tier: offsets 0..32 (so 29, 30, 31, 32 are inside) and 1..7 shares;
// thorough tier: offsets 0..35, 1..15 shares. The quick check must finish well
// inside 15 minutes on a loaded machine.
use crate::kani_model::tier::WIDE;
const OFF_MAX: i64 = if WIDE { 35 } else { 32 };
const SH_MAX: i64 = if WIDE { 15 } else { 7 };
const GAP_MAX: i64 = if WIDE { 10 } else { 3 };

/// Settlement offset of a neighbouring row. The C02 window harnesses always
/// draw it symbolically (`always_symbolic`); the split / look-ahead / portion
/// shapes draw it symbolically in the thorough tier and fix it (inside the
/// window) in the quick tier, where the 30-day boundary is C02's job and the
/// check has to finish well inside 15 minutes.
fn off(always_symbolic: bool, quick_value: i64) -> i64 {
    // (fixing the offsets in the quick tier was measured twice: same formula
    // size, no speed-up, and cover witnesses become unreachable -- so they are
    // always symbolic)
    let _ = (always_symbolic, quick_value);
    any_in(0, OFF_MAX)
}
fn gap(always_symbolic: bool, quick_value: i64) -> i64 {
    let _ = (always_symbolic, quick_value);
    any_in(0, GAP_MAX)
}

/// Reachability witness of a window harness. Each witness is a separate SAT
/// query over the whole formula and the first one costs 250-550 s (the final
/// UNSAT query for all assertions: 1-60 s), so the quick tier, which has to
/// finish inside 15 minutes on a loaded machine, compiles them out; the
/// thorough tier of the same harness keeps them (all satisfied there).
macro_rules! wcover {
    ($what:literal) => {{ if WIDE { vcover!($what); } }};
}

fn min3(a: i64, b: i64, c: i64) -> i64 {
    let m = if a < b { a } else { b };
    if m < c { m } else { c }
}

// Every row's TRADE date lies a symbolic 0..3 days before its settlement date,
// independently per row: the window is defined on settlement dates, and a
// scan that looked at trade dates would disagree with the oracle near the
// 30/31-day boundary.
fn traded(mut t: Tx, settle_day: i64) -> Tx {
    if WIDE {
        let gap = any_in(0, 3);
        t.trade_date = date(settle_day - gap);
    } else {
        // quick tier: one fixed trade date, 40 days before the sale, for every
        // row (a scan keyed on trade dates would put every row on one day and
        // disagree with the oracle); saves one symbolic date conversion per row
        let _ = settle_day;
        t.trade_date = date(SALE_DAY - 40);
    }
    t
}
fn a_sale(af: u8, n: i64, idx: u32) -> Tx {
    traded(tx(aff(af), date(SALE_DAY), idx, sell(pos(n, 0), gez(1, 0), gez(0, 0), cad(), None, None)), SALE_DAY)
}
fn a_buy(af: u8, x: i64, day: i64, idx: u32) -> Tx {
    traded(tx(aff(af), date(day), idx, buy(pos(x, 0), gez(1, 0), gez(0, 0), cad(), None)), day)
}
fn a_sell(af: u8, z: i64, day: i64, idx: u32) -> Tx {
    traded(tx(aff(af), date(day), idx, sell(pos(z, 0), gez(1, 0), gez(0, 0), cad(), None, None)), day)
}
fn a_split(af: u8, post: i64, pre: i64, day: i64, idx: u32) -> Tx {
    traded(tx(aff(af), date(day), idx, split(pos(post, 0), pos(pre, 0), false)), day)
}

/// State just before the sale: `bd`, `bb`, `br` shares held by default / b /
/// the registered affiliate (None = never transacted), the seller (default)
/// last to... no: the order of set_latest_post_status calls is d, b, r.
fn state_before_sale(bd: i64, bb: Option<i64>, br: Option<i64>) -> AffiliatePortfolioSecurityStatuses {
    let mut st = AffiliatePortfolioSecurityStatuses::new(SEC.to_string(), None);
    let mut total = bd;
    st.set_latest_post_status(&aff(0), status(gez(bd, 0), gez(total, 0), Some(gez(0, 0))));
    if let Some(b) = bb {
        total += b;
        st.set_latest_post_status(&aff(1), status(gez(b, 0), gez(total, 0), Some(gez(0, 0))));
    }
    if let Some(r) = br {
        total += r;
        st.set_latest_post_status(&aff(2), status(gez(r, 0), gez(total, 0), None));
    }
    st
}

fn check_result(
    r: &Option<SflRatioResultResult>,
    n: i64,
    acquired: i64,
    held: i64,
) {
    // superficial exactly when something was acquired in the window and the
    // affiliates together still hold shares at its end
    let superficial = acquired > 0 && held > 0;
    match r {
        Some(res) => {
            wcover!("superficial");
            assert!(superficial);
            assert!(*res.sfl_ratio.denominator == dec(n, 0));
            assert!(*res.sfl_ratio.numerator == dec(min3(n, acquired, held), 0));
        }
        None => {
            wcover!("not superficial");
            assert!(!superficial);
        }
    }
}

// W1: Buy(default) before, the loss sale (default), Buy(default) after.
sl_harness! {
    #[kani::unwind(5)]
    fn c02_w_buy_sale_buy() {
        let b0 = any_in(0, SH_MAX); let x = any_in(1, SH_MAX); let y = any_in(1, SH_MAX);
        let o1 = off(true, 6); let o2 = off(true, 8);
        let bd = b0 + x;
        let n = any_in(1, 2 * SH_MAX);
        ks::assume(n <= bd);
        let st = state_before_sale(bd, None, None);
        let txs = vec![a_buy(0, x, SALE_DAY - o1, 0), a_sale(0, n, 1), a_buy(0, y, SALE_DAY + o2, 2)];
        let r = get_superficial_loss_ratio(1, &txs, &st);
        let in1 = o1 <= 30; let in2 = o2 <= 30;
        let acquired = (if in1 { x } else { 0 }) + (if in2 { y } else { 0 });
        let held = bd - n + (if in2 { y } else { 0 });
        match r {
            Ok(res) => {
                check_result(&res, n, acquired, held);
                if let Some(rr) = &res {
                    // one buying affiliate (the seller): it receives the whole adjustment
                    assert!(rr.acb_adjust_affiliate_ratios.len() == 1);
                    let p = rr.acb_adjust_affiliate_ratios.get(&aff(0)).unwrap();
                    assert!(*p.numerator == dec(held, 0) && *p.denominator == dec(held, 0));
                    assert!(!rr.fewer_remaining_shares_than_sfl_shares);
                }
                core::mem::forget(res);
            }
            Err(_) => assert!(false, "no later sale: the scan must not reject"),
        }
        core::mem::forget(txs); core::mem::forget(st);
    }
}

// W2: Buy(b) before, the loss sale (default), a later Sell(default).
sl_harness! {
    #[kani::unwind(5)]
    fn c02_w_otherbuy_sale_sell() {
        let bd = any_in(1, SH_MAX); let bb0 = any_in(0, SH_MAX); let x = any_in(1, SH_MAX);
        let z = any_in(1, SH_MAX);
        let o1 = off(false, 6); let o2 = off(false, 8);
        let bb = bb0 + x;
        let n = any_in(1, SH_MAX);
        ks::assume(n <= bd);
        let st = state_before_sale(bd, Some(bb), None);
        let txs = vec![a_buy(1, x, SALE_DAY - o1, 0), a_sale(0, n, 1), a_sell(0, z, SALE_DAY + o2, 2)];
        let r = get_superficial_loss_ratio(1, &txs, &st);
        let in1 = o1 <= 30; let in2 = o2 <= 30;
        let acquired = if in1 { x } else { 0 };
        let oversold = in2 && z > bd - n;
        let held = bd + bb - n - (if in2 { z } else { 0 });
        match r {
            Ok(res) => {
                // C04: accepted => the later sale is covered by the holdings
                assert!(!oversold);
                check_result(&res, n, acquired, held);
                if let Some(rr) = &res {
                    // the buyer is b; its end-of-window holding is bb
                    assert!(rr.acb_adjust_affiliate_ratios.len() == 1);
                    let p = rr.acb_adjust_affiliate_ratios.get(&aff(1)).unwrap();
                    assert!(*p.numerator == dec(bb, 0) && *p.denominator == dec(bb, 0));
                    assert!(rr.fewer_remaining_shares_than_sfl_shares == (bb < min3(n, acquired, held)));
                }
                core::mem::forget(res);
            }
            Err(_) => {
                wcover!("rejected");
                // C04: rejected only when a sale inside the window really over-sells
                assert!(oversold);
            }
        }
        core::mem::forget(txs); core::mem::forget(st);
    }
}

// W3: the loss sale (default), then Buy(b) and Sell(b) after it; the
// registered affiliate bought before.
sl_harness! {
    #[kani::unwind(6)]
    fn c02_w_regbuy_sale_otherbuy_othersell() {
        let bd = any_in(1, SH_MAX); let bb = any_in(0, SH_MAX); let br0 = any_in(0, SH_MAX);
        let w = any_in(1, SH_MAX); let y = any_in(1, SH_MAX); let z = any_in(1, SH_MAX);
        let o0 = off(false, 6); let o1 = off(false, 8); let g = gap(false, 2);
        let o2 = o1 + g;
        let br = br0 + w;
        let n = any_in(1, SH_MAX);
        ks::assume(n <= bd);
        let st = state_before_sale(bd, Some(bb), Some(br));
        let txs = vec![a_buy(2, w, SALE_DAY - o0, 0), a_sale(0, n, 1), a_buy(1, y, SALE_DAY + o1, 2), a_sell(1, z, SALE_DAY + o2, 3)];
        let r = get_superficial_loss_ratio(1, &txs, &st);
        let in0 = o0 <= 30; let in1 = o1 <= 30; let in2 = o2 <= 30;
        let acquired = (if in0 { w } else { 0 }) + (if in1 { y } else { 0 });
        let b_eop = bb + (if in1 { y } else { 0 }) - (if in2 { z } else { 0 });
        let oversold = in2 && z > bb + (if in1 { y } else { 0 });
        let held = bd - n + br + b_eop;
        match r {
            Ok(res) => {
                assert!(!oversold);
                check_result(&res, n, acquired, held);
                if let Some(rr) = &res {
                    // buyers: r (if in window) and b (if in window); portions are
                    // end-of-window holdings over the buyers' total
                    let buyers_total = (if in0 { br } else { 0 }) + (if in1 { b_eop } else { 0 });
                    assert!(rr.fewer_remaining_shares_than_sfl_shares == (buyers_total < min3(n, acquired, held)));
                    if buyers_total > 0 {
                        assert!(rr.acb_adjust_affiliate_ratios.len() == (in0 as usize) + (in1 as usize));
                        if in1 {
                            let p = rr.acb_adjust_affiliate_ratios.get(&aff(1)).unwrap();
                            assert!(*p.numerator == dec(b_eop, 0) && *p.denominator == dec(buyers_total, 0));
                        }
                        if in0 {
                            let p = rr.acb_adjust_affiliate_ratios.get(&aff(2)).unwrap();
                            assert!(*p.numerator == dec(br, 0) && *p.denominator == dec(buyers_total, 0));
                        }
                    } else {
                        assert!(rr.acb_adjust_affiliate_ratios.len() == 0);
                    }
                }
                core::mem::forget(res);
            }
            Err(_) => {
                wcover!("rejected");
                assert!(oversold);
            }
        }
        core::mem::forget(txs); core::mem::forget(st);
    }
}

// W4 (C15/C04): the loss sale, then a split of the seller's shares, then a
// later sale of post-split shares. `exact_only` restricts to ratios whose
// factor and its inverse are exact decimals (the complement is finding F1).
fn lookahead_split_sell(mode: u8) {
    let bd = any_in(1, SH_MAX);
    let n = any_in(1, SH_MAX);
    ks::assume(n <= bd);
    let (post, pre) = if mode == 0 {
        // post/pre and pre/post both terminate: {1,2,4} x {1,2,4}
        let post = any_in(1, 4); let pre = any_in(1, 4);
        ks::assume(post != 3 && pre != 3);
        (post, pre)
    } else {
        // the 1-for-3 reverse split of known finding F1 (1/3 and 1/(1/3) are
        // rounded the same way at any number of digits, so a counterexample
        // found with the 6-digit model is one with rust_decimal's 28 digits)
        (1, 3)
    };
    let z = any_in(1, 4 * SH_MAX);
    let o1 = off(false, 6); let g = gap(false, 2);
    let o2 = o1 + g;
    let st = state_before_sale(bd, None, None);
    let txs = vec![a_sale(0, n, 0), a_split(0, post, pre, SALE_DAY + o1, 1), a_sell(0, z, SALE_DAY + o2, 2)];
    let r = get_superficial_loss_ratio(0, &txs, &st);
    let in1 = o1 <= 30; let in2 = o2 <= 30;
    // z post-split shares are z*pre/post shares of the sale's period (if the
    // split is inside the window; a split outside it is after the later sale
    // too, since rows are in date order)
    let oversold = if in2 { if in1 { z * pre > (bd - n) * post } else { z > bd - n } } else { false };
    match r {
        Ok(res) => {
            wcover!("accepted");
            assert!(!oversold);
            // nothing was acquired: never superficial
            assert!(res.is_none());
            core::mem::forget(res);
        }
        Err(_) => {
            wcover!("rejected");
            assert!(oversold, "look-ahead rejected a sale the holdings cover");
        }
    }
    core::mem::forget(txs); core::mem::forget(st);
}
sl_harness! {
    #[kani::unwind(5)]
    fn c04_lookahead_split_sell_one_for_three() { lookahead_split_sell(1); }
}
sl_harness! {
    #[kani::unwind(5)]
    fn c04_lookahead_split_sell_exact_ratio() { lookahead_split_sell(0); }
}

// W5 (C15/C02): a split before the sale (inside or outside the window) and a
// buy before the split: acquired shares are counted in the sale's split period.
sl_harness! {
    #[kani::unwind(5)]
    fn c15_w_buy_split_sale() {
        let x = any_in(1, SH_MAX);
        let m = any_in(1, 3); // m-for-1 split
        let o1 = off(false, 6); let g = gap(false, 2);
        let o0 = o1 + g; // the buy is at or before the split
        let b0 = any_in(0, SH_MAX);
        let bd = (b0 + x) * m; // holdings at the sale, post-split
        let n = any_in(1, 6 * SH_MAX);
        ks::assume(n <= bd);
        let st = state_before_sale(bd, None, None);
        let txs = vec![a_buy(0, x, SALE_DAY - o0, 0), a_split(0, m, 1, SALE_DAY - o1, 1), a_sale(0, n, 2)];
        let r = get_superficial_loss_ratio(2, &txs, &st);
        let in0 = o0 <= 30;
        // rows are date ordered: if the buy is in the window so is the split
        let acquired = if in0 { x * m } else { 0 };
        let held = bd - n;
        match r {
            Ok(res) => { check_result(&res, n, acquired, held); core::mem::forget(res); }
            Err(_) => assert!(false, "no later sale: the scan must not reject"),
        }
        core::mem::forget(txs); core::mem::forget(st);
    }
}

// W6 (C15): the seller may sell everything; its shares then split m-for-1 and
// it buys y post-split shares, all inside or outside the window: the
// acquisition counts as y/m shares of the sale's period.
sl_harness! {
    #[kani::unwind(5)]
    fn c15_w_sale_split_buy() {
        let bd = any_in(1, SH_MAX);
        let n = any_in(1, SH_MAX);
        ks::assume(n <= bd);
        let two = ks::any_bool(); // 2-for-1 or 1-for-1
        let m = if two { 2 } else { 1 };
        let y = any_in(1, SH_MAX);
        let o1 = off(false, 6); let g = gap(false, 2);
        let o2 = o1 + g;
        let st = state_before_sale(bd, None, None);
        let txs = vec![a_sale(0, n, 0), a_split(0, m, 1, SALE_DAY + o1, 1), a_buy(0, y, SALE_DAY + o2, 2)];
        let r = get_superficial_loss_ratio(0, &txs, &st);
        let in1 = o1 <= 30; let in2 = o2 <= 30;
        // in tenths of a share of the sale's split period
        let acq10 = if in2 { if in1 && two { y * 5 } else { y * 10 } } else { 0 };
        let held10 = (bd - n) * 10 + acq10;
        match r {
            Ok(res) => {
                let superficial = acq10 > 0 && held10 > 0;
                match &res {
                    Some(rr) => {
                        wcover!("superficial");
                        assert!(superficial);
                        let num10 = min3(n * 10, acq10, held10);
                        assert!(*rr.sfl_ratio.numerator == dec(num10, 1));
                        assert!(*rr.sfl_ratio.denominator == dec(n, 0));
                    }
                    None => { wcover!("not superficial"); assert!(!superficial); }
                }
                core::mem::forget(res);
            }
            Err(_) => assert!(false, "no later sale: the scan must not reject"),
        }
        core::mem::forget(txs); core::mem::forget(st);
    }
}

// ---- Lemmas for the composition used by the denied-amount harnesses -------
// (delta_list.rs): for the two histories those harnesses use, the scan returns
// exactly the specification value that they substitute for it.
sl_harness! {
    #[kani::unwind(5)]
    fn c02_lemma_buy_sale() {
        // Buy(default, x) 5 days before the loss sale of n by default
        let x = any_in(1, SH_MAX); let b0 = any_in(0, SH_MAX); let n = any_in(1, SH_MAX);
        let bd = b0 + x;
        ks::assume(n <= bd);
        let st = state_before_sale(bd, None, None);
        let txs = vec![a_buy(0, x, SALE_DAY - 5, 0), a_sale(0, n, 1)];
        let r = get_superficial_loss_ratio(1, &txs, &st);
        let held = bd - n;
        match r {
            Ok(Some(rr)) => {
                wcover!("superficial");
                assert!(held > 0);
                assert!(*rr.sfl_ratio.numerator == dec(min3(n, x, held), 0) && *rr.sfl_ratio.denominator == dec(n, 0));
                assert!(rr.acb_adjust_affiliate_ratios.len() == 1);
                let p = rr.acb_adjust_affiliate_ratios.get(&aff(0)).unwrap();
                assert!(*p.numerator == dec(held, 0) && *p.denominator == dec(held, 0));
                assert!(!rr.fewer_remaining_shares_than_sfl_shares);
                core::mem::forget(rr);
            }
            Ok(None) => { wcover!("not superficial"); assert!(held == 0); }
            Err(_) => assert!(false, "rejected"),
        }
        core::mem::forget(txs); core::mem::forget(st);
    }
}

sl_harness! {
    #[kani::unwind(6)]
    fn c03_lemma_buy_buy_sale_sell() {
        // Buy(default, x) day -9, Buy(b, y) day -5, loss sale of n by default, Sell(b, z) day +3
        let x = any_in(1, 7); let y = any_in(1, 7);
        let b0 = any_in(0, 7); let bb0 = any_in(0, 7);
        let n = any_in(1, 7); let z = any_in(1, 14);
        let bd = b0 + x; let bb = bb0 + y;
        ks::assume(n <= bd && z <= bb);
        let st = state_before_sale(bd, Some(bb), None);
        let txs = vec![a_buy(0, x, SALE_DAY - 9, 0), a_buy(1, y, SALE_DAY - 5, 1), a_sale(0, n, 2), a_sell(1, z, SALE_DAY + 3, 3)];
        let r = get_superficial_loss_ratio(2, &txs, &st);
        let hd = bd - n; let hb = bb - z; let held = hd + hb;
        match r {
            Ok(Some(rr)) => {
                wcover!("superficial");
                assert!(held > 0);
                assert!(*rr.sfl_ratio.numerator == dec(min3(n, x + y, held), 0) && *rr.sfl_ratio.denominator == dec(n, 0));
                // both affiliates are buyers: portions h_k / (h_d + h_b), zero holdings included
                assert!(rr.acb_adjust_affiliate_ratios.len() == 2);
                let pd = rr.acb_adjust_affiliate_ratios.get(&aff(0)).unwrap();
                let pb = rr.acb_adjust_affiliate_ratios.get(&aff(1)).unwrap();
                assert!(*pd.numerator == dec(hd, 0) && *pd.denominator == dec(held, 0));
                assert!(*pb.numerator == dec(hb, 0) && *pb.denominator == dec(held, 0));
                assert!(!rr.fewer_remaining_shares_than_sfl_shares);
                core::mem::forget(rr);
            }
            Ok(None) => { wcover!("not superficial"); assert!(held == 0); }
            Err(_) => assert!(false, "rejected"),
        }
        core::mem::forget(txs); core::mem::forget(st);
    }
}

// The same lemma for the concrete histories of c03_emit_* (delta_list.rs).
fn lemma_concrete(x: i64, y: i64, bd: i64, bb: i64, n: i64, z: i64) {
    let st = state_before_sale(bd, Some(bb), None);
    let txs = vec![a_buy(0, x, SALE_DAY - 9, 0), a_buy(1, y, SALE_DAY - 5, 1), a_sale(0, n, 2), a_sell(1, z, SALE_DAY + 3, 3)];
    let r = get_superficial_loss_ratio(2, &txs, &st);
    let hd = bd - n; let hb = bb - z; let held = hd + hb;
    match r {
        Ok(Some(rr)) => {
            wcover!("superficial");
            assert!(*rr.sfl_ratio.numerator == dec(min3(n, x + y, held), 0) && *rr.sfl_ratio.denominator == dec(n, 0));
            assert!(rr.acb_adjust_affiliate_ratios.len() == 2);
            let pd = rr.acb_adjust_affiliate_ratios.get(&aff(0)).unwrap();
            let pb = rr.acb_adjust_affiliate_ratios.get(&aff(1)).unwrap();
            assert!(*pd.numerator == dec(hd, 0) && *pd.denominator == dec(held, 0));
            assert!(*pb.numerator == dec(hb, 0) && *pb.denominator == dec(held, 0));
            assert!(!rr.fewer_remaining_shares_than_sfl_shares);
            core::mem::forget(rr);
        }
        _ => assert!(false, "expected a superficial loss"),
    }
    core::mem::forget(txs); core::mem::forget(st);
}
sl_harness! { #[kani::unwind(6)] fn c03_lemma_concrete_histories() {
    lemma_concrete(4, 3, 6, 5, 3, 2);
    lemma_concrete(4, 3, 6, 5, 3, 5);
    lemma_concrete(4, 3, 6, 5, 6, 2);
} }

// W7 (C15): ANOTHER affiliate bought and then had its shares split inside the
// window before the default affiliate's loss sale: its acquisition counts in
// the sale's split period (x * m), keyed by the split row's own affiliate.
sl_harness! {
    #[kani::unwind(6)]
    fn c15_w_otherbuy_othersplit_sale() {
        let x = any_in(1, SH_MAX); let bb0 = any_in(0, SH_MAX);
        let two = ks::any_bool();
        let m = if two { 2 } else { 3 };
        let bd = any_in(1, SH_MAX);
        let n = any_in(1, SH_MAX);
        ks::assume(n <= bd);
        let o1 = off(false, 6); let g = gap(false, 2);
        let o0 = o1 + g; // the buy is at or before the split
        let bb = (bb0 + x) * m; // b's holdings at the sale, post-split
        let st = state_before_sale(bd, Some(bb), None);
        let txs = vec![a_buy(1, x, SALE_DAY - o0, 0), a_split(1, m, 1, SALE_DAY - o1, 1), a_sale(0, n, 2)];
        let r = get_superficial_loss_ratio(2, &txs, &st);
        let in0 = o0 <= 30;
        let acquired = if in0 { x * m } else { 0 };
        let held = bd - n + bb;
        match r {
            Ok(res) => { check_result(&res, n, acquired, held); core::mem::forget(res); }
            Err(_) => assert!(false, "no later sale: the scan must not reject"),
        }
        core::mem::forget(txs); core::mem::forget(st);
    }
}

// W8: another affiliate buys and sells again (possibly everything) inside the
// window BEFORE the default affiliate's loss sale: the purchase still counts
// as an acquisition; only the holdings at the end of the window matter for
// "held".
sl_harness! {
    #[kani::unwind(6)]
    fn c02_w_otherbuy_othersell_sale() {
        let x = any_in(1, SH_MAX); let bb0 = any_in(0, SH_MAX);
        let z = any_in(1, 2 * SH_MAX);
        ks::assume(z <= bb0 + x);
        let bb = bb0 + x - z; // b's holdings when the loss sale happens (may be 0)
        let bd = any_in(1, SH_MAX);
        let n = any_in(1, SH_MAX);
        ks::assume(n <= bd);
        let o1 = off(true, 6); let g = gap(true, 2);
        let o0 = o1 + g; // the buy is at or before b's sale
        let st = state_before_sale(bd, Some(bb), None);
        let txs = vec![a_buy(1, x, SALE_DAY - o0, 0), a_sell(1, z, SALE_DAY - o1, 1), a_sale(0, n, 2)];
        let r = get_superficial_loss_ratio(2, &txs, &st);
        let in0 = o0 <= 30;
        let acquired = if in0 { x } else { 0 };
        let held = bd - n + bb;
        match r {
            Ok(res) => {
                check_result(&res, n, acquired, held);
                if let Some(rr) = &res {
                    // the only buyer is b: the flag tells that b holds less than the denied share count
                    assert!(rr.fewer_remaining_shares_than_sfl_shares == (bb < min3(n, acquired, held)));
                }
                core::mem::forget(res);
            }
            Err(_) => assert!(false, "no later sale: the scan must not reject"),
        }
        core::mem::forget(txs); core::mem::forget(st);
    }
}
