// Child module of src/portfolio/misc.rs. C08/C07: split_txs_by_security keeps
// each security's rows, all of them, in their order.
#![allow(unused_imports, dead_code, unused_variables)]
use super::*;
use crate::kani_model::ks;
use crate::kani_model::mk::*;
use crate::vcover;

macro_rules! m_harness {
    ($(#[$m:meta])* fn $name:ident() $body:block) => {
        #[cfg_attr(kani, kani::proof)]
        #[cfg_attr(kani, kani::stub(alloc::fmt::format, crate::kani_model::fmtm::format))]
        #[cfg_attr(kani, kani::stub(core::fmt::write, crate::kani_model::fmtm::write))]
        #[cfg_attr(kani, kani::stub(crate::portfolio::model::affiliate::Affiliate::from_strep,
                     crate::portfolio::model::affiliate::kani_harness::from_strep_stub))]
        $(#[cfg_attr(kani, $m)])*
        pub fn $name() $body
    };
}

// Which security each of the three rows belongs to is fixed per harness (a
// symbolic choice makes the per-security Vecs symbolic-size heap objects: 23 GB
// in CBMC); the 8 patterns are enumerated below, and inside each the rows'
// dates, read indices and share counts are symbolic.
fn split3(s0: bool, s1: bool, s2: bool) {
    let name = |b: bool| if b { "A" } else { "B" };
    let i0 = any_in(0, 1000) as u32; let i1 = any_in(0, 1000) as u32; let i2 = any_in(0, 1000) as u32;
    ks::assume(i0 < i1 && i1 < i2);
    let d0 = any_in(1, 300); let d1 = any_in(1, 300); let d2 = any_in(1, 300);
    // documented precondition: the list is sorted by (settlement date, read index)
    ks::assume(d0 <= d1 && d1 <= d2);
    let rows = vec![
        tx_sec(name(s0), aff(0), date(d0), i0, buy(pos(1, 0), gez(1, 0), gez(0, 0), cad(), None)),
        tx_sec(name(s1), aff(0), date(d1), i1, buy(pos(1, 0), gez(1, 0), gez(0, 0), cad(), None)),
        tx_sec(name(s2), aff(0), date(d2), i2, buy(pos(1, 0), gez(1, 0), gez(0, 0), cad(), None)),
    ];
    let m = split_txs_by_security(rows);
    vcover!("split");
    let na = (s0 as usize) + (s1 as usize) + (s2 as usize);
    let nb = 3 - na;
    // every security present has a bucket with exactly its rows; no empty buckets, no others
    assert!(m.len() == (na > 0) as usize + (nb > 0) as usize);
    let check = |sec: &str, want_a: bool, cnt: usize| match m.get(sec) {
        Some(v) => {
            assert!(v.len() == cnt && cnt > 0);
            let mut prev: i64 = -1;
            for t in v.iter() {
                assert!(t.security == sec);
                let i = t.read_index;
                // it is one of this security's rows, with its own date, in input order
                assert!((i == i0 && s0 == want_a && t.settlement_date == date(d0))
                    || (i == i1 && s1 == want_a && t.settlement_date == date(d1))
                    || (i == i2 && s2 == want_a && t.settlement_date == date(d2)));
                assert!((i as i64) > prev);
                prev = i as i64;
            }
        }
        None => assert!(cnt == 0),
    };
    check("A", true, na);
    check("B", false, nb);
    core::mem::forget(m);
}

m_harness! { #[kani::unwind(5)] fn c08_split_by_security_aab() { split3(true, true, false); } }
m_harness! { #[kani::unwind(5)] fn c08_split_by_security_aba() { split3(true, false, true); } }
m_harness! { #[kani::unwind(5)] fn c08_split_by_security_baa() { split3(false, true, true); } }
m_harness! { #[kani::unwind(5)] fn c08_split_by_security_aaa() { split3(true, true, true); } }
m_harness! { #[kani::unwind(5)] fn c08_split_by_security_abb() { split3(true, false, false); } }
m_harness! { #[kani::unwind(5)] fn c08_split_by_security_bab() { split3(false, true, false); } }
m_harness! { #[kani::unwind(5)] fn c08_split_by_security_bba() { split3(false, false, true); } }
m_harness! { #[kani::unwind(5)] fn c08_split_by_security_bbb() { split3(false, false, false); } }
