// Child module of src/portfolio/misc.rs. C08/C07: split_txs_by_security keeps
// each security's rows, all of them, in their order.
#![allow(unused_imports, dead_code, unused_variables)]
use super::*;
use crate::kani_model::ks;
use crate::kani_model::mk::*;
use crate::vcover;

macro_rules! m_harness {
    ($(#[$m:meta])* fn $name:ident() $body:block) => {
        #[cfg_attr(kani, kani::proof)]
        #[cfg_attr(kani, kani::stub(alloc::fmt::format, crate::kani_model::fmtm::format))]
        #[cfg_attr(kani, kani::stub(core::fmt::write, crate::kani_model::fmtm::write))]
        #[cfg_attr(kani, kani::stub(crate::portfolio::model::affiliate::Affiliate::from_strep,
                     crate::portfolio::model::affiliate::kani_harness::from_strep_stub))]
        $(#[cfg_attr(kani, $m)])*
        pub fn $name() $body
    };
}

m_harness! {
    #[kani::unwind(5)]
    fn c08_split_by_security_3() {
        // three rows, each of security "A" or "B" (symbolic), identified by read_index
        let s0 = ks::any_bool(); let s1 = ks::any_bool(); let s2 = ks::any_bool();
        let name = |b: bool| if b { "A" } else { "B" };
        let rows = vec![
            tx_sec(name(s0), aff(0), date(10), 0, buy(pos(1, 0), gez(1, 0), gez(0, 0), cad(), None)),
            tx_sec(name(s1), aff(0), date(10), 1, buy(pos(1, 0), gez(1, 0), gez(0, 0), cad(), None)),
            tx_sec(name(s2), aff(0), date(10), 2, buy(pos(1, 0), gez(1, 0), gez(0, 0), cad(), None)),
        ];
        let m = split_txs_by_security(rows);
        vcover!("split");
        let na = (s0 as usize) + (s1 as usize) + (s2 as usize);
        let nb = 3 - na;
        // every security present has a bucket with exactly its rows; no empty buckets, no others
        assert!(m.len() == (na > 0) as usize + (nb > 0) as usize);
        match m.get("A") {
            Some(v) => {
                assert!(v.len() == na && na > 0);
                // rows of A, in input order
                let mut prev: i64 = -1;
                for t in v.iter() {
                    assert!(t.security == "A");
                    let i = t.read_index;
                    assert!((i == 0 && s0) || (i == 1 && s1) || (i == 2 && s2));
                    assert!((i as i64) > prev);
                    prev = i as i64;
                }
            }
            None => assert!(na == 0),
        }
        match m.get("B") {
            Some(v) => {
                assert!(v.len() == nb && nb > 0);
                let mut prev: i64 = -1;
                for t in v.iter() {
                    assert!(t.security == "B");
                    let i = t.read_index;
                    assert!((i == 0 && !s0) || (i == 1 && !s1) || (i == 2 && !s2));
                    assert!((i as i64) > prev);
                    prev = i as i64;
                }
            }
            None => assert!(nb == 0),
        }
        core::mem::forget(m);
    }
}
