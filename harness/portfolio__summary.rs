// Child module of src/portfolio/summary.rs. C10: the summary rows must put
// the later rows into the same situation as the full history did.
#![allow(unused_imports, dead_code, unused_variables)]
use super::*;
use crate::kani_model::ks;
use crate::kani_model::mk::*;
use crate::vcover;
use std::rc::Rc;

macro_rules! su_harness {
    ($(#[$m:meta])* fn $name:ident() $body:block) => {
        #[cfg_attr(kani, kani::proof)]
        #[cfg_attr(kani, kani::stub(alloc::fmt::format, crate::kani_model::fmtm::format))]
        #[cfg_attr(kani, kani::stub(core::fmt::write, crate::kani_model::fmtm::write))]
        #[cfg_attr(kani, kani::stub(<time::Date as core::fmt::Display>::fmt, crate::kani_model::fmtm::date_display))]
        #[cfg_attr(kani, kani::stub(<rust_decimal::Decimal as core::fmt::Display>::fmt, crate::kani_model::fmtm::dec_display))]
        #[cfg_attr(kani, kani::stub(crate::portfolio::model::affiliate::Affiliate::from_strep,
                     crate::portfolio::model::affiliate::kani_harness::from_strep_stub))]
        #[cfg_attr(kani, kani::stub(crate::util::date::today_local, far_future_today))]
        $(#[cfg_attr(kani, $m)])*
        pub fn $name() $body
    };
}

// "today" far after every date used (the real today_local reaches chrono's
// system clock, which trips a kani-compiler ICE; natively the real clock is
// years after 2020 as well).
fn far_future_today() -> time::Date {
    date_y(2030, 1)
}

fn st(bal: i64, acb: i64) -> Rc<crate::portfolio::PortfolioSecurityStatus> {
    status(gez(bal, 0), gez(bal, 0), Some(gez(acb, 2)))
}

fn dl(t: Tx, pre: (i64, i64), post: (i64, i64), gain: Option<i64>) -> TxDelta {
    delta_of(t, st(pre.0, pre.1), st(post.0, post.1), gain.map(|g| dec(g, 2)))
}

// History of the default affiliate: Buy 10 on day a, Sell 2 at a gain on day
// b, Sell 5 at a (non-superficial) loss on day c; a < b < c. The full history
// allows the whole loss: nothing was acquired within 30 days of day c. The
// summary for `--summarize-before <day s>` (b <= s < c) must then not date its
// opening Buy inside the 30-day window of the day-c sale, or the re-run denies
// a loss the original allowed.
fn st2(bal: i64, all: i64, acb: i64) -> Rc<crate::portfolio::PortfolioSecurityStatus> {
    status(gez(bal, 0), gez(all, 0), Some(gez(acb, 2)))
}

su_harness! {
    #[kani::unwind(5)]
    fn c10_summary_buy_not_in_later_loss_window() {
        let a = any_in(1, 200); let b = any_in(1, 200); let c = any_in(1, 200); let s = any_in(1, 200);
        ks::assume(a < b && b < c && b <= s && s < c);
        // the full history reports no superficial loss for the day-c sale
        ks::assume(a < c - 30);
        // the day-c sale sells k of the seller's 8 shares (possibly all of them);
        // another affiliate, which never trades in this history, holds o shares
        let k = any_in(1, 8); let o = any_in(0, 3);
        let deltas = vec![
            delta_of(simple_buy(aff(0), date(a), 0), st2(0, o, 0), st2(10, 10 + o, 10000), None),
            delta_of(tx(aff(0), date(b), 1, sell(pos(2, 0), gez(2000, 2), gez(0, 0), cad(), None, None)),
                     st2(10, 10 + o, 10000), st2(8, 8 + o, 8000), Some(dec(2000, 2))),
            delta_of(tx(aff(0), date(c), 2, sell(pos(k, 0), gez(500, 2), gez(0, 0), cad(), None, None)),
                     st2(8, 8 + o, 8000), st2(8 - k, 8 - k + o, (8 - k) * 1000), Some(dec(-500 * k, 2))),
        ];
        let ranges = get_summary_range_delta_indicies(date(s), &deltas);
        vcover!("ranges computed");
        let ranges = ranges.unwrap();
        assert!(ranges.latest_delta_in_summary_range_idx == 1);
        if let Some(i) = ranges.latest_summarizable_delta_idx {
            let (txs, warns) = make_simple_summary_txs(&aff(0), &deltas, i);
            assert!(txs.len() == 1);
            // same holdings as the summarised prefix ...
            match &txs[0].action_specifics {
                crate::portfolio::TxActionSpecifics::Buy(bs) => {
                    let bal = if i == 0 { 10 } else { 8 };
                    assert!(*bs.shares == dec(bal, 0));
                    assert!(*bs.commission == dec(0, 0));
                }
                _ => assert!(false, "summary row is not a Buy"),
            }
            // ... acquired on a date outside the window of the later loss sale,
            // whenever some affiliate still holds shares after that sale (otherwise
            // the loss can never be superficial and the date does not matter)
            let d = txs[0].settlement_date;
            if 8 - k + o > 0 {
                assert!(d < date(c - 30), "summary Buy lands inside the 30-day window of a later loss sale");
            }
            core::mem::forget(txs); core::mem::forget(warns);
        }
        core::mem::forget(deltas);
    }
}

// The summary Buy reproduces the summarised balance and (up to one division's
// rounding) the cost base.
su_harness! {
    #[kani::unwind(5)]
    fn c10_summary_buy_reproduces_state() {
        let bal = any_in(1, 15); let acb = any_in(0, 1000);
        let deltas = vec![dl(simple_buy(aff(0), date(20), 0), (0, 0), (bal, acb), None)];
        let (txs, warns) = make_simple_summary_txs(&aff(0), &deltas, 0);
        vcover!("summarised");
        assert!(txs.len() == 1 && warns.is_empty());
        assert!(txs[0].affiliate == aff(0) && txs[0].settlement_date == date(20) && txs[0].trade_date == date(20));
        match &txs[0].action_specifics {
            crate::portfolio::TxActionSpecifics::Buy(bs) => {
                assert!(*bs.shares == dec(bal, 0));
                let c = logged_div(0, dec(acb, 2), dec(bal, 0));
                assert!(*bs.amount_per_share == c);
                // cost of the summary purchase = c * balance, within balance * 1e-6 of ACB
                // (model digits; c is the rounded quotient)
                let cost = c * dec(bal, 0);
                assert!((dec(acb, 2) - cost).abs() <= dec(bal, 6));
                assert!(bs.tx_currency_and_rate.is_default() && bs.separate_commission_currency.is_none());
            }
            _ => assert!(false, "summary row is not a Buy"),
        }
        core::mem::forget(txs); core::mem::forget(deltas); core::mem::forget(warns);
    }
}

// The whole summary of one affiliate whose last summarised row is a split:
// the opening Buy must carry the post-split balance and the split's date.
su_harness! {
    #[kani::unwind(6)]
    fn c10_summary_after_split_uses_post_split_balance() {
        let bal = any_in(1, 15); let acb = any_in(0, 1000);
        let a = any_in(1, 100); let g = any_in(1, 100);
        let b = a + g;              // the split settles after the buy
        let s = b + any_in(0, 50);  // summary date at or after the split
        let deltas = vec![
            dl(simple_buy(aff(0), date(a), 0), (0, 0), (bal, acb), None),
            dl(tx(aff(0), date(b), 1, split(pos(2, 0), pos(1, 0), false)), (bal, acb), (2 * bal, acb), None),
        ];
        let (txs, warns) = make_summary_txs(date(s), &deltas, false);
        vcover!("summarised");
        assert!(txs.len() == 1);
        assert!(txs[0].affiliate == aff(0));
        assert!(txs[0].settlement_date == date(b));
        match &txs[0].action_specifics {
            crate::portfolio::TxActionSpecifics::Buy(bs) => {
                assert!(*bs.shares == dec(2 * bal, 0), "summary does not carry the post-split balance");
                assert!(*bs.amount_per_share == logged_div(0, dec(acb, 2), dec(2 * bal, 0)));
            }
            _ => assert!(false, "summary row is not a Buy"),
        }
        core::mem::forget(txs); core::mem::forget(warns); core::mem::forget(deltas);
    }
}
