// Child module of src/util/math.rs. C05: the rounding helpers used on every
// denied-loss amount must not panic for any value a computation can produce.
#![allow(unused_imports, dead_code, unused_variables)]
use super::*;
use crate::kani_model::ks;
use crate::kani_model::mk::*;
use crate::vcover;

#[cfg_attr(kani, kani::proof)]
#[cfg_attr(kani, kani::unwind(5))]
#[cfg_attr(kani, kani::stub(alloc::fmt::format, crate::kani_model::fmtm::format))]
#[cfg_attr(kani, kani::stub(core::fmt::write, crate::kani_model::fmtm::write))]
#[cfg_attr(kani, kani::stub(<rust_decimal::Decimal as core::fmt::Display>::fmt, crate::kani_model::fmtm::dec_display))]
pub fn c05_effective_cent_rounding_never_panics() {
    // any negative amount m * 10^-s: cents, and the residue a division leaves
    // (a loss of 5e-11 arises from 10-decimal prices: ACB/share 0.33333333335,
    // sale at 0.3333333333)
    let m = any_in(1, 60000);
    let s = any_in(0, 12) as u32;
    let d = neg(-m, s);
    let r = c_maybe_round_to_effective_cent(d);
    vcover!("rounded");
    // the effective-cent rule: unchanged, or the cent within 1e-10 of it
    assert!(*r == *d || ((*r - *d).abs() < dec(1, 10)));
    assert!(r.is_sign_negative() && !r.is_zero());
    let p = pos(m, s);
    let rp = c_maybe_round_to_effective_cent(p);
    assert!(*rp == *p || ((*rp - *p).abs() < dec(1, 10)));
    assert!(!rp.is_zero());
}
