// Child module of src/app/approot.rs. C04/C08: a security whose history was
// rejected is left out of every capital-gain total; the aggregate is the sum of
// the other securities' own totals.
#![allow(unused_imports, dead_code, unused_variables)]
use super::*;
use crate::kani_model::ks;
use crate::kani_model::mk::*;
use crate::vcover;
use std::rc::Rc;

fn st0() -> Rc<crate::portfolio::PortfolioSecurityStatus> {
    status(gez(1, 0), gez(1, 0), Some(gez(0, 0)))
}
fn sell_delta(sec: &str, day: i64, idx: u32, gain: i64) -> TxDelta {
    let t = tx_sec(sec, aff(0), date(day), idx, sell(pos(1, 0), gez(1, 0), gez(0, 0), cad(), None, None));
    delta_of(t, st0(), st0(), Some(dec(gain, 2)))
}

#[cfg_attr(kani, kani::proof)]
#[cfg_attr(kani, kani::unwind(6))]
#[cfg_attr(kani, kani::stub(alloc::fmt::format, crate::kani_model::fmtm::format))]
#[cfg_attr(kani, kani::stub(core::fmt::write, crate::kani_model::fmtm::write))]
#[cfg_attr(kani, kani::stub(crate::portfolio::model::affiliate::Affiliate::from_strep,
             crate::portfolio::model::affiliate::kani_harness::from_strep_stub))]
pub fn c04_errored_security_left_out_of_totals() {
    // security A completes with one realised gain; security B realised a gain
    // and was then rejected (its partial ledger still holds that row)
    let ga = any_in(0, 10000) - 5000;
    let gb = any_in(0, 10000) - 5000;
    let mut m: HashMap<Security, DeltaListResult> = HashMap::new();
    m.insert("A".to_string(), DeltaListResult(Ok(vec![sell_delta("A", 50, 0, ga)])));
    m.insert("B".to_string(), DeltaListResult(Err(crate::portfolio::bookkeeping::TxDeltaListError::new(vec![sell_delta("B", 60, 1, gb)], "e".to_string()))));
    let r = get_cumulative_capital_gains(&m);
    vcover!("totals computed");
    // B is in no total
    assert!(r.security_gains.get("B").is_none());
    assert!(r.security_gains.len() == 1);
    let a = r.security_gains.get("A").unwrap();
    assert!(a.capital_gains_total == dec(ga, 2));
    // the aggregate is exactly the completed securities' own totals
    assert!(r.aggregate_gains.capital_gains_total == dec(ga, 2));
    assert!(r.aggregate_gains.capital_gains_years_totals.len() == 1);
    assert!(*r.aggregate_gains.capital_gains_years_totals.get(&2020).unwrap() == dec(ga, 2));
    core::mem::forget(r); core::mem::forget(m);
}
