// Child module of src/util/decimal.rs. C06: every dollar figure shown with
// default options is the full-precision figure rounded half away from zero to
// cents. Formatting is the subject here, so it is NOT stubbed: the text is
// produced by the real format!/Formatter machinery over the model Decimal's
// Display.
#![allow(unused_imports, dead_code, unused_variables)]
use super::*;
use crate::kani_model::ks;
use crate::kani_model::mk::*;
use crate::vcover;

#[cfg_attr(kani, kani::proof)]
#[cfg_attr(kani, kani::unwind(8))]
pub fn c06_dollar_precision_str_rounds_half_away() {
    // |d| = m / 1000 with m <= 9994 (so the rounded figure has one integer digit)
    let m = any_in(0, 9994);
    let negv = ks::any_bool();
    let d = dec(if negv { -m } else { m }, 3);
    let s = dollar_precision_str(&d);
    vcover!("formatted");
    let cents = (m + 5) / 10; // half away from zero on the magnitude
    let minus = negv && m > 0;
    let b = s.as_bytes();
    let off = if minus { 1 } else { 0 };
    assert!(b.len() == off + 4);
    if minus {
        assert!(b[0] == b'-');
    }
    assert!(b[off] == b'0' + (cents / 100) as u8);
    assert!(b[off + 1] == b'.');
    assert!(b[off + 2] == b'0' + ((cents / 10) % 10) as u8);
    assert!(b[off + 3] == b'0' + (cents % 10) as u8);
    core::mem::forget(s);
}

#[cfg_attr(kani, kani::proof)]
#[cfg_attr(kani, kani::unwind(5))]
#[cfg_attr(kani, kani::stub(alloc::fmt::format, crate::kani_model::fmtm::format))]
pub fn c06_round_to_cent_is_half_away_from_zero() {
    // the rounding applied to displayed figures, on values with 3..5 decimals
    let m = any_in(0, 60000);
    let negv = ks::any_bool();
    let extra = any_in(1, 3); // digits beyond the cent
    let d = dec(if negv { -m } else { m }, 2 + extra as u32);
    let r = crate::util::math::round_to_cent(d);
    vcover!("rounded");
    let p = if extra == 1 { 10 } else if extra == 2 { 100 } else { 1000 };
    let cents = (m + p / 2) / p;
    assert!(r == dec(if negv { -cents } else { cents }, 2));
    // display-only: the input is untouched (by value) and the result has 2 decimals
    assert!(r.scale() <= 2);
}
