// Child module of src/portfolio/bookkeeping/delta_list.rs (cfg(kani) for the
// solver, cfg(verif_replay) for native replay of counterexamples).
// Harnesses over the real delta_for_tx / get_delta_superficial_loss_info.
// See /verif/DESIGN.md 5 (C01-C05, C15, C16).
#![allow(unused_imports, dead_code, unused_variables)]
use super::*;
use crate::kani_model::ks;
use crate::kani_model::mk::*;
use crate::vcover;
use crate::portfolio::SFLInput;

macro_rules! bk_harness {
    ($(#[$m:meta])* fn $name:ident() $body:block) => {
        #[cfg_attr(kani, kani::proof)]
        #[cfg_attr(kani, kani::stub(alloc::fmt::format, crate::kani_model::fmtm::format))]
        #[cfg_attr(kani, kani::stub(core::fmt::write, crate::kani_model::fmtm::write))]
        #[cfg_attr(kani, kani::stub(<time::Date as core::fmt::Display>::fmt, crate::kani_model::fmtm::date_display))]
        #[cfg_attr(kani, kani::stub(<rust_decimal::Decimal as core::fmt::Display>::fmt, crate::kani_model::fmtm::dec_display))]
        #[cfg_attr(kani, kani::stub(crate::portfolio::model::affiliate::Affiliate::from_strep,
                     crate::portfolio::model::affiliate::kani_harness::from_strep_stub))]
        $(#[cfg_attr(kani, $m)])*
        pub fn $name() $body
    };
}

/// Cut stub: a harness that claims the superficial-loss path is unreachable
/// stubs it with this; reaching it is a failed check (so the unreachability is
/// proved, and the scan's symex cost disappears).
fn cut_sfl_unreachable(
    _idx: usize,
    _txs: &Vec<Tx>,
    _st: &AffiliatePortfolioSecurityStatuses,
    _loss: NegDecimal,
) -> Result<Option<(DeltaSflInfo, Vec<Tx>)>, Error> {
    panic!("cut: superficial-loss path reached");
}

/// Neutral stub for the sell step: "not superficial". The sale formula is then
/// checked for gains and losses alike; the adjustment of a superficial loss is
/// checked by the c02_* harnesses on get_delta_superficial_loss_info itself.
fn sfl_none(
    _idx: usize,
    _txs: &Vec<Tx>,
    _st: &AffiliatePortfolioSecurityStatuses,
    _loss: NegDecimal,
) -> Result<Option<(DeltaSflInfo, Vec<Tx>)>, Error> {
    Ok(None)
}

// Value ranges of the step harnesses. Balances are whole shares, money has 2
// decimals, FX rates 2 decimals. SAT time is governed by the widths of the
// multiplier operands, so the quick tier uses 4-7 bit operands and the
// thorough tier 6-12 bits.
use crate::kani_model::tier::WIDE;
const BAL_MAX: i64 = if WIDE { 63 } else { 7 };
const ACB_MAX: i64 = if WIDE { 4000 } else { 255 }; // 40.00 / 2.55
const N_MAX: i64 = if WIDE { 63 } else { 7 };
const PRICE_MAX: i64 = if WIDE { 500 } else { 31 }; // 5.00 / 0.31
const COMM_MAX: i64 = if WIDE { 63 } else { 7 }; // 0.63 / 0.07
const RATE_MAX: i64 = if WIDE { 127 } else { 15 }; // 1.27 / 0.15

struct Money {
    usd_tx: bool,
    rate: i64,
    sep: bool,
    crate_: i64,
}
impl Money {
    fn any() -> Money {
        let usd_tx = ks::any_bool();
        let rate = any_in(1, RATE_MAX);
        let sep = ks::any_bool();
        let crate_ = any_in(1, RATE_MAX);
        Money { usd_tx, rate, sep, crate_ }
    }
    fn cr(&self) -> CurrencyAndExchangeRate {
        if self.usd_tx { usd(self.rate) } else { cad() }
    }
    fn ccr(&self) -> Option<CurrencyAndExchangeRate> {
        if self.sep { Some(usd(self.crate_)) } else { None }
    }
    // the statement's rule: each amount converted at its own rate; the
    // commission's rate defaults to the transaction's
    fn r_tx(&self) -> Decimal {
        if self.usd_tx { dec(self.rate, 2) } else { dec(1, 0) }
    }
    fn r_comm(&self) -> Decimal {
        if self.sep { dec(self.crate_, 2) } else { self.r_tx() }
    }
}

/// Checks shared by every accepted step: the ledger threading of C01/C04
/// (pre status = the affiliate's last status with the current all-affiliate
/// total; post total = pre total + change; registered <=> no ACB, no gain;
/// nothing negative).
fn check_frame(s: &SymState, ai: u8, d: &TxDelta, new_bal: Decimal, bal_delta: Decimal) {
    check_frame_sc(s, ai, d, new_bal, bal_delta, 0)
}
fn check_frame_sc(s: &SymState, ai: u8, d: &TxDelta, new_bal: Decimal, bal_delta: Decimal, bsc: u32) {
    assert!(*d.pre_status.share_balance == dec(s.bal_of(ai), bsc));
    assert!(*d.pre_status.all_affiliate_share_balance == dec(s.total, bsc));
    assert!(*d.post_status.share_balance == new_bal);
    assert!(*d.post_status.all_affiliate_share_balance == dec(s.total, bsc) + bal_delta);
    assert!(d.post_status.total_acb.is_none() == (ai == 2));
    assert!(d.pre_status.total_acb.is_none() == (ai == 2));
    if ai == 2 {
        assert!(d.capital_gain.is_none());
        assert!(d.sfl.is_none());
    } else {
        assert!(*d.pre_status.total_acb.unwrap() == dec(s.acb_of(ai), 2));
    }
    assert!(!d.post_status.share_balance.is_sign_negative());
    assert!(!d.post_status.all_affiliate_share_balance.is_sign_negative());
}

macro_rules! step_buy {
    ($name:ident, $ai:expr, $mask:expr) => {
        bk_harness! {
            #[kani::unwind(5)]
            #[kani::stub(get_delta_superficial_loss_info, cut_sfl_unreachable)]
            fn $name() {
                let ai: u8 = $ai;
                let s = sym_state(BAL_MAX, 0, ACB_MAX, 2, $mask);
                let n = any_in(1, N_MAX);
                let price = any_in(0, PRICE_MAX);
                let comm = any_in(0, COMM_MAX);
                let m = Money::any();
                let txs = vec![tx(aff(ai), date(100), 0, buy(pos(n, 0), gez(price, 2), gez(comm, 2), m.cr(), m.ccr()))];
                let r = delta_for_tx(0, &txs, &s.st);
                match r {
                    Ok((d, inject)) => {
                        vcover!("buy accepted");
                        assert!(inject.is_none());
                        assert!(d.capital_gain.is_none());
                        assert!(d.sfl.is_none());
                        check_frame(&s, ai, &d, dec(s.bal_of(ai), 0) + dec(n, 0), dec(n, 0));
                        if ai != 2 {
                            let cost = dec(price, 2) * dec(n, 0) * m.r_tx() + dec(comm, 2) * m.r_comm();
                            assert!(*d.post_status.total_acb.unwrap() == dec(s.acb_of(ai), 2) + cost);
                        }
                        core::mem::forget(d);
                    }
                    Err(_) => {
                        // C04: a purchase is never rejected from a valid state
                        assert!(false, "buy rejected");
                    }
                }
                core::mem::forget(txs);
                core::mem::forget(s);
            }
        }
    };
}

macro_rules! step_sell {
    ($name:ident, $ai:expr, $mask:expr) => {
        bk_harness! {
            #[kani::unwind(5)]
            #[kani::stub(get_delta_superficial_loss_info, sfl_none)]
            fn $name() {
                let ai: u8 = $ai;
                let s = sym_state(BAL_MAX, 0, ACB_MAX, 2, $mask);
                let n = any_in(1, N_MAX);
                let price = any_in(0, PRICE_MAX);
                let comm = any_in(0, COMM_MAX);
                let m = Money::any();
                let txs = vec![tx(aff(ai), date(100), 0, sell(pos(n, 0), gez(price, 2), gez(comm, 2), m.cr(), m.ccr(), None))];
                let bal = s.bal_of(ai);
                let r = delta_for_tx(0, &txs, &s.st);
                match r {
                    Ok((d, inject)) => {
                        vcover!("sell accepted");
                        // C04: accepted => the affiliate held the shares
                        assert!(n <= bal);
                        assert!(inject.is_none());
                        check_frame(&s, ai, &d, dec(bal, 0) - dec(n, 0), dec(0, 0) - dec(n, 0));
                        if ai != 2 {
                            // c = ACB / balance as the ledger computed it (0 when no shares)
                            let c = if bal > 0 { logged_div(0, dec(s.acb_of(ai), 2), dec(bal, 0)) } else { dec(0, 0) };
                            let proceeds = dec(price, 2) * dec(n, 0) * m.r_tx() - dec(comm, 2) * m.r_comm();
                            assert!(d.capital_gain.unwrap() == proceeds - c * dec(n, 0));
                            assert!(*d.post_status.total_acb.unwrap() == (dec(bal, 0) - dec(n, 0)) * c);
                            assert!(!d.post_status.total_acb.unwrap().is_sign_negative());
                        }
                        core::mem::forget(d);
                    }
                    Err(_) => {
                        vcover!("sell rejected");
                        // C04: rejected only when more is sold than held
                        assert!(n > bal);
                    }
                }
                core::mem::forget(txs);
                core::mem::forget(s);
            }
        }
    };
}

macro_rules! step_roc {
    ($name:ident, $ai:expr, $mask:expr) => {
        bk_harness! {
            #[kani::unwind(5)]
            #[kani::stub(get_delta_superficial_loss_info, cut_sfl_unreachable)]
            fn $name() {
                let ai: u8 = $ai;
                let s = sym_state(BAL_MAX, 0, ACB_MAX, 2, $mask);
                let amount = any_in(0, PRICE_MAX);
                let usd_tx = ks::any_bool();
                let rate = any_in(1, RATE_MAX);
                let cr = if usd_tx { usd(rate) } else { cad() };
                let r_tx = if usd_tx { dec(rate, 2) } else { dec(1, 0) };
                let txs = vec![tx(aff(ai), date(100), 0, roc(gez(amount, 2), cr))];
                let bal = s.bal_of(ai);
                let reduction = dec(amount, 2) * dec(bal, 0) * r_tx;
                let r = delta_for_tx(0, &txs, &s.st);
                match r {
                    Ok((d, inject)) => {
                        vcover!("roc accepted");
                        assert!(ai != 2);
                        assert!(reduction <= dec(s.acb_of(ai), 2));
                        assert!(inject.is_none());
                        assert!(d.capital_gain.is_none());
                        assert!(d.sfl.is_none());
                        check_frame(&s, ai, &d, dec(bal, 0), dec(0, 0));
                        assert!(*d.post_status.total_acb.unwrap() == dec(s.acb_of(ai), 2) - reduction);
                        assert!(!d.post_status.total_acb.unwrap().is_sign_negative());
                        core::mem::forget(d);
                    }
                    Err(_) => {
                        vcover!("roc rejected");
                        assert!(ai == 2 || reduction > dec(s.acb_of(ai), 2));
                    }
                }
                core::mem::forget(txs);
                core::mem::forget(s);
            }
        }
    };
}

macro_rules! step_sfla {
    ($name:ident, $ai:expr, $mask:expr) => {
        bk_harness! {
            #[kani::unwind(5)]
            #[kani::stub(get_delta_superficial_loss_info, cut_sfl_unreachable)]
            fn $name() {
                let ai: u8 = $ai;
                let s = sym_state(BAL_MAX, 0, ACB_MAX, 2, $mask);
                let sh = any_in(1, N_MAX);
                let amount = any_in(1, PRICE_MAX);
                let txs = vec![tx(aff(ai), date(100), 0, sfla(pos(sh, 0), pos(amount, 2)))];
                let bal = s.bal_of(ai);
                let r = delta_for_tx(0, &txs, &s.st);
                match r {
                    Ok((d, inject)) => {
                        vcover!("sfla accepted");
                        assert!(ai != 2);
                        assert!(inject.is_none());
                        assert!(d.capital_gain.is_none());
                        assert!(d.sfl.is_none());
                        check_frame(&s, ai, &d, dec(bal, 0), dec(0, 0));
                        assert!(*d.post_status.total_acb.unwrap() == dec(s.acb_of(ai), 2) + dec(sh, 0) * dec(amount, 2));
                        core::mem::forget(d);
                    }
                    Err(_) => {
                        vcover!("sfla rejected");
                        assert!(ai == 2);
                    }
                }
                core::mem::forget(txs);
                core::mem::forget(s);
            }
        }
    };
}

macro_rules! step_split {
    ($name:ident, $ai:expr, $mask:expr) => {
        bk_harness! {
            #[kani::unwind(5)]
            #[kani::stub(get_delta_superficial_loss_info, cut_sfl_unreachable)]
            fn $name() {
                let ai: u8 = $ai;
                // balances in tenths of a share: other affiliates may hold fractions
                let s = sym_state(BAL_MAX, 1, ACB_MAX, 2, $mask);
                let post = any_in(1, 9);
                let pre = any_in(1, 9);
                let int_only = ks::any_bool();
                let txs = vec![tx(aff(ai), date(100), 0, split(pos(post, 0), pos(pre, 0), int_only))];
                let bal = s.bal_of(ai);
                let r = delta_for_tx(0, &txs, &s.st);
                // factor = post / pre as the ledger computed it
                let f = logged_div(0, dec(post, 0), dec(pre, 0));
                let new_bal = dec(bal, 1) * f;
                match r {
                    Ok((d, inject)) => {
                        vcover!("split accepted");
                        assert!(inject.is_none());
                        assert!(d.capital_gain.is_none());
                        assert!(d.sfl.is_none());
                        check_frame_sc(&s, ai, &d, new_bal, new_bal - dec(bal, 1), 1);
                        if ai != 2 {
                            // a split never changes total cost
                            assert!(*d.post_status.total_acb.unwrap() == dec(s.acb_of(ai), 2));
                        }
                        // C04: a whole-number reverse split leaving a fraction is rejected
                        assert!(!(int_only && pre > post && !new_bal.is_integer()));
                        core::mem::forget(d);
                    }
                    Err(_) => {
                        vcover!("split rejected");
                        assert!(int_only && pre > post && !new_bal.is_integer());
                    }
                }
                core::mem::forget(txs);
                core::mem::forget(s);
            }
        }
    };
}

// Shapes (acting affiliate, set of affiliates that transacted before):
//   a0_m1: default alone            a0_m7: default, not the last to transact
//   a1_m3: "b", last to transact    a1_m1: "b" has never transacted
//   a2_m7: registered affiliate     a0_m0: empty portfolio
step_buy!(c01_buy_a0_m1, 0, 0b001);
step_buy!(c01_buy_a0_m7, 0, 0b111);
step_buy!(c01_buy_a1_m3, 1, 0b011);
step_buy!(c01_buy_a1_m1, 1, 0b001);
step_buy!(c01_buy_a2_m7, 2, 0b111);
step_buy!(c01_buy_a0_m0, 0, 0b000);

step_sell!(c01_sell_a0_m1, 0, 0b001);
step_sell!(c01_sell_a0_m7, 0, 0b111);
step_sell!(c01_sell_a1_m3, 1, 0b011);
step_sell!(c01_sell_a1_m1, 1, 0b001);
step_sell!(c01_sell_a2_m7, 2, 0b111);

step_roc!(c01_roc_a0_m1, 0, 0b001);
step_roc!(c01_roc_a0_m7, 0, 0b111);
step_roc!(c01_roc_a1_m3, 1, 0b011);
step_roc!(c01_roc_a2_m7, 2, 0b111);

step_sfla!(c01_sfla_a0_m1, 0, 0b001);
step_sfla!(c01_sfla_a1_m3, 1, 0b011);
step_sfla!(c01_sfla_a2_m7, 2, 0b111);

step_split!(c01_split_a0_m1, 0, 0b001);
step_split!(c01_split_a0_m7, 0, 0b111);
step_split!(c01_split_a1_m3, 1, 0b011);
step_split!(c01_split_a2_m7, 2, 0b111);

// ---- C16: an opening position (--symbol-base SYM:shares:acb) is the same
// ledger state as an opening purchase of that many shares for that total cost.
bk_harness! {
    #[kani::unwind(5)]
    #[kani::stub(get_delta_superficial_loss_info, cut_sfl_unreachable)]
    fn c16_opening_status_equals_opening_buy() {
        let n = any_in(1, N_MAX);
        let acb = any_in(0, ACB_MAX);
        // (1) seeded with the opening status
        let st1 = AffiliatePortfolioSecurityStatuses::new(SEC.to_string(), Some(status(gez(n, 0), gez(n, 0), Some(gez(acb, 2)))));
        // (2) empty, then a purchase of n shares whose total cost is acb
        let mut st2 = AffiliatePortfolioSecurityStatuses::new(SEC.to_string(), None);
        let split_cost: bool = ks::any_bool();
        // total cost either all in the commission, or all in the price when it divides
        let txs = vec![tx(aff(0), date(10), 0, buy(pos(n, 0), gez(0, 0), gez(acb, 2), cad(), None))];
        let (d, inject) = delta_for_tx(0, &txs, &st2).unwrap();
        assert!(inject.is_none());
        st2.set_latest_post_status(&aff(0), d.post_status.clone());
        vcover!("both built");
        // the same state as seen by every affiliate
        let q = ks::any_u8();
        ks::assume(q < 3);
        let a = st1.get_next_pre_status(&aff(q));
        let b = st2.get_next_pre_status(&aff(q));
        assert!(a.share_balance == b.share_balance);
        assert!(a.all_affiliate_share_balance == b.all_affiliate_share_balance);
        assert!(a.total_acb == b.total_acb);
        assert!(a.security == b.security);
        let la = st1.get_latest_post_status();
        let lb = st2.get_latest_post_status();
        assert!(*la == *lb);
        assert!(*la.share_balance == dec(n, 0) && *la.total_acb.unwrap() == dec(acb, 2));
        let _ = split_cost;
        core::mem::forget(d); core::mem::forget(txs); core::mem::forget(st1); core::mem::forget(st2);
        core::mem::forget(a); core::mem::forget(b); core::mem::forget(la); core::mem::forget(lb);
    }
}

// ---- C02 / C03: the denied amount and its redistribution, on the real
// get_delta_superficial_loss_info *including* the real window scan (so that a
// counterexample replays natively through the same call).
// History: Buy(default, x) and Buy(b, y) inside the window, then the loss sale
// by default. State just before the sale: default holds bd, b holds bb.
const SALE_DAY: i64 = 100;

fn sfl_state(bd: i64, bb: Option<i64>) -> AffiliatePortfolioSecurityStatuses {
    let mut st = AffiliatePortfolioSecurityStatuses::new(SEC.to_string(), None);
    let mut total = bd;
    st.set_latest_post_status(&aff(0), status(gez(bd, 0), gez(total, 0), Some(gez(0, 0))));
    if let Some(b) = bb {
        total += b;
        st.set_latest_post_status(&aff(1), status(gez(b, 0), gez(total, 0), Some(gez(0, 0))));
    }
    st
}
fn min3i(a: i64, b: i64, c: i64) -> i64 {
    let m = if a < b { a } else { b };
    if m < c { m } else { c }
}
/// The statement's effective-cent rule: the denied amount is loss*ratio,
/// shown as the exact cent when it is within 1e-10 of one. Written as a
/// relation on the reported value (no second rounding in the oracle: two
/// independent quotients by 10^k would have to be proved equal by the SAT
/// solver).
fn is_eff_cent_of(reported: Decimal, raw: Decimal) -> bool {
    reported == raw || ((reported - raw).abs() < dec(1, 10) && reported.scale() <= 2)
}
fn eff_cent(d: Decimal) -> Decimal {
    let r = d.round_dp_with_strategy(2, rust_decimal::RoundingStrategy::MidpointAwayFromZero);
    if (r - d).abs() < dec(1, 10) { r } else { d }
}

// The window scan replaced by its specification value for the history the
// harness builds (composition: c02_lemma_buy_sale / c03_lemma_buy_buy_sale_sell
// in superficial_loss.rs prove that the real scan returns exactly this value
// for these histories; natively -- in replay -- the real scan runs).
// (present, numerator, denominator, holdings of default and b at end of window
//  or -1 when the affiliate is not a buyer)
static mut SPEC_SFL: (bool, i64, i64, i64, i64) = (false, 0, 1, -1, -1);
fn spec_scan(
    _idx: usize,
    _txs: &Vec<Tx>,
    _st: &AffiliatePortfolioSecurityStatuses,
) -> Result<Option<super::super::superficial_loss::SflRatioResultResult>, Error> {
    let (present, num, den, hd, hb) = unsafe { SPEC_SFL };
    if !present {
        return Ok(None);
    }
    let mut m = HashMap::new();
    let total = (if hd >= 0 { hd } else { 0 }) + (if hb >= 0 { hb } else { 0 });
    if total > 0 {
        if hd >= 0 {
            m.insert(aff(0), crate::util::math::GezDecimalRatio { numerator: gez(hd, 0), denominator: pos(total, 0) });
        }
        if hb >= 0 {
            m.insert(aff(1), crate::util::math::GezDecimalRatio { numerator: gez(hb, 0), denominator: pos(total, 0) });
        }
    }
    Ok(Some(super::super::superficial_loss::SflRatioResultResult {
        sfl_ratio: crate::util::math::PosDecimalRatio { numerator: pos(num, 0), denominator: pos(den, 0) },
        acb_adjust_affiliate_ratios: m,
        fewer_remaining_shares_than_sfl_shares: total < num,
    }))
}
#[cfg(kani)]
use crate::kani_model::collections::HashMap;
#[cfg(not(kani))]
use std::collections::HashMap;

bk_harness! {
    #[kani::unwind(5)]
    #[kani::stub(crate::portfolio::bookkeeping::superficial_loss::get_superficial_loss_ratio, spec_scan)]
    fn c02_amount_one_buyer() {
        let x = any_in(1, 15); let b0 = any_in(0, 15);
        let n = any_in(1, 15);
        let loss = any_in(1, 2000); // 0.01 .. 20.00
        let bd = b0 + x;
        ks::assume(n <= bd);
        let st = sfl_state(bd, None);
        let txs = vec![
            tx(aff(0), date(SALE_DAY - 5), 0, buy(pos(x, 0), gez(1, 0), gez(0, 0), cad(), None)),
            tx(aff(0), date(SALE_DAY), 1, sell(pos(n, 0), gez(1, 0), gez(0, 0), cad(), None, None)),
        ];
        let held = bd - n;
        unsafe { SPEC_SFL = (held > 0, min3i(n, x, if held > 0 { held } else { 1 }), n, held, -1); }
        let r = get_delta_superficial_loss_info(1, &txs, &st, neg(-loss, 2));
        match r {
            Ok(Some((info, adj))) => {
                vcover!("superficial");
                assert!(held > 0);
                let num = min3i(n, x, held);
                assert!(*info.ratio.numerator == dec(num, 0) && *info.ratio.denominator == dec(n, 0));
                // denied = loss * min(sold, acquired, held) / sold
                let ratio = logged_div(0, dec(num, 0), dec(n, 0));
                let denied = *info.superficial_loss;
                assert!(is_eff_cent_of(denied, dec(-loss, 2) * ratio));
                assert!(!info.potentially_over_applied);
                // C03: added once, in full, to the buyer's cost base
                assert!(adj.len() == 1);
                assert!(adj[0].affiliate == aff(0));
                assert!(adj[0].settlement_date == date(SALE_DAY));
                match &adj[0].action_specifics {
                    TxActionSpecifics::Sfla(s) => {
                        // amount = |denied| x (buyer's holding / buyers' holdings), the
                        // portion as the ledger divided it (here held/held)
                        let portion = logged_div(1, dec(held, 0), dec(held, 0));
                        assert!(*s.shares_affected == dec(1, 0));
                        assert!(*s.amount_per_share == dec(-1, 0) * denied * portion);
                    }
                    _ => assert!(false, "adjustment is not an SfLA"),
                }
                core::mem::forget(info); core::mem::forget(adj);
            }
            Ok(None) => {
                vcover!("not superficial");
                assert!(held == 0);
            }
            Err(_) => assert!(false, "rejected"),
        }
        core::mem::forget(txs); core::mem::forget(st);
    }
}

bk_harness! {
    #[kani::unwind(6)]
    #[kani::stub(crate::portfolio::bookkeeping::superficial_loss::get_superficial_loss_ratio, spec_scan)]
    fn c03_two_buyers_split_in_proportion() {
        // Buy(default) and Buy(b) inside the window, the loss sale by default,
        // then b sells z of its shares (possibly all of them) inside the window.
        let x = any_in(1, 7); let y = any_in(1, 7);
        let b0 = any_in(0, 7); let bb0 = any_in(0, 7);
        let n = any_in(1, 7);
        let z = any_in(1, 14);
        let loss = any_in(1, 200);
        let bd = b0 + x; let bb = bb0 + y;
        ks::assume(n <= bd && z <= bb);
        let st = sfl_state(bd, Some(bb));
        let txs = vec![
            tx(aff(0), date(SALE_DAY - 9), 0, buy(pos(x, 0), gez(1, 0), gez(0, 0), cad(), None)),
            tx(aff(1), date(SALE_DAY - 5), 1, buy(pos(y, 0), gez(1, 0), gez(0, 0), cad(), None)),
            tx(aff(0), date(SALE_DAY), 2, sell(pos(n, 0), gez(1, 0), gez(0, 0), cad(), None, None)),
            tx(aff(1), date(SALE_DAY + 3), 3, sell(pos(z, 0), gez(1, 0), gez(0, 0), cad(), None, None)),
        ];
        let hd = bd - n;       // default's end-of-window holding
        let hb = bb - z;       // b's end-of-window holding
        let held = hd + hb;
        unsafe { SPEC_SFL = (held > 0, min3i(n, x + y, if held > 0 { held } else { 1 }), n, hd, hb); }
        let r = get_delta_superficial_loss_info(2, &txs, &st, neg(-loss, 2));
        match r {
            Ok(Some((info, adj))) => {
                vcover!("superficial");
                assert!(held > 0);
                let num = min3i(n, x + y, held);
                let ratio = logged_div(0, dec(num, 0), dec(n, 0));
                let denied = *info.superficial_loss;
                assert!(is_eff_cent_of(denied, dec(-loss, 2) * ratio));
                // both affiliates bought in the window, so the buyers hold everything
                assert!(!info.potentially_over_applied);
                // one adjustment per buyer that still holds shares, ordered by affiliate id
                assert!(adj.len() == (hb > 0) as usize + (hd > 0) as usize);
                if hb > 0 && hd > 0 {
                    // ids: b sorts before default
                    assert!(adj[0].affiliate == aff(1) && adj[1].affiliate == aff(0));
                } else if hd > 0 {
                    vcover!("first buyer by id sold out");
                    assert!(adj[0].affiliate == aff(0));
                } else {
                    assert!(adj[0].affiliate == aff(1));
                }
                // each buyer's amount = |denied| x its end-of-window holding / the
                // buyers' total holding, with the quotient as the ledger computed it
                // (division 0 is the loss ratio; every emitted row divides twice:
                // once for the amount, once for its memo). The portions are
                // truncated quotients of h_k / (h_b + h_d), so their sum is <= 1
                // and > 1 - 2e-6: adjustments never exceed the denied amount
                // (paper step from the division lemma).
                let buyers = dec(hb + hd, 0);
                let mut k = 1;
                for a in adj.iter() {
                    assert!(!a.affiliate.registered());
                    assert!(a.settlement_date == date(SALE_DAY));
                    let h = if a.affiliate == aff(1) { hb } else { hd };
                    match &a.action_specifics {
                        TxActionSpecifics::Sfla(s) => {
                            assert!(*s.shares_affected == dec(1, 0));
                            assert!(*s.amount_per_share == dec(-1, 0) * denied * logged_div(k, dec(h, 0), buyers));
                        }
                        _ => assert!(false, "adjustment is not an SfLA"),
                    }
                    k += 2;
                }
                core::mem::forget(info); core::mem::forget(adj);
            }
            Ok(None) => {
                vcover!("not superficial");
                assert!(held == 0);
            }
            Err(_) => assert!(false, "rejected"),
        }
        core::mem::forget(txs); core::mem::forget(st);
    }
}

bk_harness! {
    #[kani::unwind(5)]
    #[kani::stub(crate::portfolio::bookkeeping::superficial_loss::get_superficial_loss_ratio, spec_scan)]
    fn c02_specified_sfl_validated() {
        // the user states the superficial loss on the sale row
        let x = any_in(1, 7); let b0 = any_in(0, 7);
        let n = any_in(1, 7);
        let loss = any_in(1, 200);
        let given = any_in(0, 300); // 0.00 .. 3.00, as -given/100
        let given_milli = any_in(0, 9); // plus thousandths
        let force = ks::any_bool();
        let bd = b0 + x;
        ks::assume(n <= bd);
        let st = sfl_state(bd, None);
        let g = dec(-(given * 10 + given_milli), 3);
        let sfl_in = SFLInput { superficial_loss: LessEqualZeroDecimal::try_from(g).unwrap(), force };
        let txs = vec![
            tx(aff(0), date(SALE_DAY - 5), 0, buy(pos(x, 0), gez(1, 0), gez(0, 0), cad(), None)),
            tx(aff(0), date(SALE_DAY), 1, sell(pos(n, 0), gez(1, 0), gez(0, 0), cad(), None, Some(sfl_in))),
        ];
        let held = bd - n;
        let num = min3i(n, x, held);
        unsafe { SPEC_SFL = (held > 0, if held > 0 { num } else { 1 }, n, held, -1); }
        let r = get_delta_superficial_loss_info(1, &txs, &st, neg(-loss, 2));
        // Restricted to full-ratio cases (everything sold was re-acquired and is
        // still held): the tool's own figure is then the whole loss, and the
        // oracle needs no rounding of its own. Partial ratios are c02_amount's.
        ks::assume(held == 0 || num == n);
        let computed = if held > 0 { dec(-loss, 2) } else { dec(0, 0) };
        let differs = (computed - g).abs() > dec(1, 3);
        match r {
            Ok(res) => {
                vcover!("accepted");
                assert!(force || !differs);
                match res {
                    Some((info, adj)) => {
                        // the stated value replaces the computed one; no automatic adjustments
                        assert!(*info.superficial_loss == g);
                        assert!(adj.is_empty());
                        assert!(!info.potentially_over_applied);
                        core::mem::forget(info);
                    }
                    None => assert!(given == 0 && given_milli == 0),
                }
            }
            Err(_) => {
                vcover!("rejected");
                assert!(!force && differs);
            }
        }
        core::mem::forget(txs); core::mem::forget(st);
    }
}

// ---- C05: no panic in the denied-amount computation, whatever the size of
// the loss (practical ranges: up to 10 decimals; here 12 to include the noise
// a division leaves behind).
bk_harness! {
    #[kani::unwind(5)]
    #[kani::stub(crate::portfolio::bookkeeping::superficial_loss::get_superficial_loss_ratio, spec_scan)]
    fn c05_tiny_loss_does_not_panic() {
        let x = any_in(1, 3); let n = any_in(1, 3);
        let m = any_in(1, 60000);       // loss = m * 10^-12
        let bd = x + 3;
        let st = sfl_state(bd, None);
        let txs = vec![
            tx(aff(0), date(SALE_DAY - 5), 0, buy(pos(x, 0), gez(1, 0), gez(0, 0), cad(), None)),
            tx(aff(0), date(SALE_DAY), 1, sell(pos(n, 0), gez(1, 0), gez(0, 0), cad(), None, None)),
        ];
        // any outcome but a panic is acceptable here
        let held = bd - n;
        unsafe { SPEC_SFL = (true, min3i(n, x, held), n, held, -1); }
        let r = get_delta_superficial_loss_info(1, &txs, &st, neg(-m, 12));
        vcover!("returned");
        core::mem::forget(r); core::mem::forget(txs); core::mem::forget(st);
    }
}


// ---- C03 / C05: emission of the adjustment rows for FIXED end-of-window
// holdings (the push of a ~260-byte Tx under a *symbolic* condition is what
// makes c03_two_buyers_split_in_proportion intractable; with concrete holdings
// the pushes are unconditional and only the loss is symbolic).
// History: Buy(default) day -9, Buy(b) day -5, loss sale by default, Sell(b)
// day +3; (bd, bb, n, z) concrete per harness.
fn emit_rows(x: i64, y: i64, bd: i64, bb: i64, n: i64, z: i64) {
    let loss = any_in(1, 2000);
    let st = sfl_state(bd, Some(bb));
    let txs = vec![
        tx(aff(0), date(SALE_DAY - 9), 0, buy(pos(x, 0), gez(1, 0), gez(0, 0), cad(), None)),
        tx(aff(1), date(SALE_DAY - 5), 1, buy(pos(y, 0), gez(1, 0), gez(0, 0), cad(), None)),
        tx(aff(0), date(SALE_DAY), 2, sell(pos(n, 0), gez(1, 0), gez(0, 0), cad(), None, None)),
        tx(aff(1), date(SALE_DAY + 3), 3, sell(pos(z, 0), gez(1, 0), gez(0, 0), cad(), None, None)),
    ];
    let hd = bd - n; let hb = bb - z; let held = hd + hb;
    let num = min3i(n, x + y, held);
    unsafe { SPEC_SFL = (true, num, n, hd, hb); }
    let r = get_delta_superficial_loss_info(2, &txs, &st, neg(-loss, 2));
    match r {
        Ok(Some((info, adj))) => {
            vcover!("superficial");
            let ratio = logged_div(0, dec(num, 0), dec(n, 0));
            let denied = *info.superficial_loss;
            assert!(is_eff_cent_of(denied, dec(-loss, 2) * ratio));
            assert!(!info.potentially_over_applied);
            // one row per buyer that still holds shares, in id order (b before default)
            assert!(adj.len() == (hb > 0) as usize + (hd > 0) as usize);
            let mut k = 1;
            let mut i = 0;
            if hb > 0 {
                assert!(adj[i].affiliate == aff(1));
                match &adj[i].action_specifics {
                    TxActionSpecifics::Sfla(s) => {
                        assert!(*s.shares_affected == dec(1, 0));
                        assert!(*s.amount_per_share == dec(-1, 0) * denied * logged_div(k, dec(hb, 0), dec(held, 0)));
                    }
                    _ => assert!(false, "adjustment is not an SfLA"),
                }
                i += 1; k += 2;
            }
            if hd > 0 {
                assert!(adj[i].affiliate == aff(0));
                assert!(adj[i].settlement_date == date(SALE_DAY));
                match &adj[i].action_specifics {
                    TxActionSpecifics::Sfla(s) => {
                        assert!(*s.shares_affected == dec(1, 0));
                        assert!(*s.amount_per_share == dec(-1, 0) * denied * logged_div(k, dec(hd, 0), dec(held, 0)));
                    }
                    _ => assert!(false, "adjustment is not an SfLA"),
                }
            }
            core::mem::forget(info); core::mem::forget(adj);
        }
        Ok(None) => assert!(false, "buyers still hold shares: the loss is superficial"),
        Err(_) => assert!(false, "rejected"),
    }
    core::mem::forget(txs); core::mem::forget(st);
}
bk_harness! {
    #[kani::unwind(6)]
    #[kani::stub(crate::portfolio::bookkeeping::superficial_loss::get_superficial_loss_ratio, spec_scan)]
    fn c03_emit_both_hold() { emit_rows(4, 3, 6, 5, 3, 2); }       // hd = 3, hb = 3
}
bk_harness! {
    #[kani::unwind(6)]
    #[kani::stub(crate::portfolio::bookkeeping::superficial_loss::get_superficial_loss_ratio, spec_scan)]
    fn c03_emit_first_by_id_sold_out() { emit_rows(4, 3, 6, 5, 3, 5); }   // hd = 3, hb = 0
}
bk_harness! {
    #[kani::unwind(6)]
    #[kani::stub(crate::portfolio::bookkeeping::superficial_loss::get_superficial_loss_ratio, spec_scan)]
    fn c03_emit_seller_sold_out() { emit_rows(4, 3, 6, 5, 6, 2); }        // hd = 0, hb = 3
}


// ---- C16 / C01 at pipeline level: txs_to_delta_list on ONE row by affiliate
// "b" with an opening position of the default affiliate: the opening shares
// count in the all-affiliate total seen by every affiliate, exactly as an
// opening purchase by the default affiliate would.
bk_harness! {
    #[kani::unwind(5)]
    #[kani::stub(get_delta_superficial_loss_info, cut_sfl_unreachable)]
    fn c16_pipeline_opening_position_seen_by_other_affiliate() {
        let n0 = any_in(1, N_MAX); let acb0 = any_in(0, ACB_MAX);
        let x = any_in(1, N_MAX); let price = any_in(0, PRICE_MAX);
        let init = status(gez(n0, 0), gez(n0, 0), Some(gez(acb0, 2)));
        let txs = vec![tx(aff(1), date(50), 0, buy(pos(x, 0), gez(price, 2), gez(0, 0), cad(), None))];
        let res = txs_to_delta_list(&txs, Some(init));
        vcover!("pipeline ran");
        match &res.0 {
            Ok(deltas) => {
                assert!(deltas.len() == 1);
                let d = &deltas[0];
                // b starts from nothing, but the security already has n0 shares in total
                assert!(*d.pre_status.share_balance == dec(0, 0));
                assert!(*d.pre_status.all_affiliate_share_balance == dec(n0, 0));
                assert!(*d.post_status.share_balance == dec(x, 0));
                assert!(*d.post_status.all_affiliate_share_balance == dec(n0, 0) + dec(x, 0));
                assert!(*d.post_status.total_acb.unwrap() == dec(0, 0) + (dec(price, 2) * dec(x, 0) * dec(1, 0) + dec(0, 0) * dec(1, 0)));
                assert!(d.capital_gain.is_none());
            }
            Err(_) => assert!(false, "a purchase is never rejected"),
        }
        core::mem::forget(res); core::mem::forget(txs);
    }
}
