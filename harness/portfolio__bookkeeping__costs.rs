// Child module of src/portfolio/bookkeeping/costs.rs. C17: total-cost tables
// show the true maximum cost held; C09: the yearly maximum does not depend on
// hash iteration order.
#![allow(unused_imports, dead_code, unused_variables)]
use super::*;
use crate::kani_model::ks;
use crate::kani_model::mk::*;
use crate::vcover;
use std::rc::Rc;

macro_rules! co_harness {
    ($(#[$m:meta])* fn $name:ident() $body:block) => {
        #[cfg_attr(kani, kani::proof)]
        #[cfg_attr(kani, kani::stub(alloc::fmt::format, crate::kani_model::fmtm::format))]
        #[cfg_attr(kani, kani::stub(core::fmt::write, crate::kani_model::fmtm::write))]
        #[cfg_attr(kani, kani::stub(<time::Date as core::fmt::Display>::fmt, crate::kani_model::fmtm::date_display))]
        #[cfg_attr(kani, kani::stub(crate::portfolio::model::affiliate::Affiliate::from_strep,
                     crate::portfolio::model::affiliate::kani_harness::from_strep_stub))]
        $(#[cfg_attr(kani, $m)])*
        pub fn $name() $body
    };
}

fn long_ids() {
    #[cfg(kani)]
    unsafe {
        crate::portfolio::model::affiliate::kani_harness::LONG_IDS = true;
    }
}

fn st(sec: &str, acb: Option<i64>) -> Rc<crate::portfolio::PortfolioSecurityStatus> {
    Rc::new(crate::portfolio::PortfolioSecurityStatus {
        security: sec.to_string(),
        share_balance: gez(1, 0),
        all_affiliate_share_balance: gez(1, 0),
        total_acb: acb.map(|a| gez(a, 2)),
    })
}

fn d(sec: &str, af: u8, day: time::Date, idx: u32, pre: Option<i64>, post: Option<i64>) -> TxDelta {
    let t = tx_sec(sec, aff(af), day, idx, buy(pos(1, 0), gez(1, 0), gez(0, 0), cad(), None));
    delta_of(t, st(sec, pre), st(sec, post), None)
}

co_harness! {
    #[kani::unwind(9)]
    fn c17_carry_forward_closing_value() {
        long_ids();
        // Security A settles twice on day 1 (cost a0 -> a1 -> a2), security B
        // once on day 2 (b0 -> b1). All by the default affiliate.
        let a0 = any_in(0, 200); let a1 = any_in(0, 200); let a2 = any_in(0, 200);
        let b0 = any_in(0, 200); let b1 = any_in(0, 200);
        let day1 = date(50); let day2 = date(80);
        let deltas = vec![
            d("A", 0, day1, 0, Some(a0), Some(a1)),
            d("A", 0, day1, 1, Some(a1), Some(a2)),
            d("B", 0, day2, 2, Some(b0), Some(b1)),
        ];
        let c = calc_total_costs(&deltas);
        vcover!("computed");
        assert!(c.total.len() == 2);
        assert!(c.ignored_deltas.is_empty());
        let a_max = if a1 > a2 { a1 } else { a2 };
        // day 1: A shows its highest cost after any transaction settling that
        // day, B its opening cost base (before its first transaction)
        let r1 = &c.total[0];
        assert!(r1.day == day1);
        assert!(**r1.sec_max_cost_for_day.get("A").unwrap() == dec(a_max, 2));
        assert!(**r1.sec_max_cost_for_day.get("B").unwrap() == dec(b0, 2));
        assert!(*r1.total == dec(a_max + b0, 2));
        // day 2: A did not settle -> its cost base after its most recent earlier
        // transaction (the closing value a2, not the day-1 maximum)
        let r2 = &c.total[1];
        assert!(r2.day == day2);
        assert!(**r2.sec_max_cost_for_day.get("B").unwrap() == dec(b1, 2));
        assert!(**r2.sec_max_cost_for_day.get("A").unwrap() == dec(a2, 2), "carried value is not the closing value");
        assert!(*r2.total == dec(a2 + b1, 2));
        // yearly: a day of 2020 whose total is the highest
        let y = c.yearly.get(&2020).unwrap();
        let t1 = a_max + b0; let t2 = a2 + b1;
        assert!(*y.total == dec(if t1 > t2 { t1 } else { t2 }, 2));
        assert!((y.day == day1 && t1 >= t2) || (y.day == day2 && t2 >= t1));
        assert!(c.yearly.len() == 1);
        core::mem::forget(c); core::mem::forget(deltas);
    }
}

co_harness! {
    #[kani::unwind(9)]
    fn c17_other_affiliates_ignored() {
        long_ids();
        // default buys A (day 1), affiliate b and the registered affiliate also
        // transact: their rows are listed as ignored and change no figure
        let a0 = any_in(0, 200); let a1 = any_in(0, 200);
        let x = any_in(0, 200);
        let day1 = date(50); let day2 = date(51);
        let deltas = vec![
            d("A", 0, day1, 0, Some(a0), Some(a1)),
            d("A", 1, day2, 1, Some(0), Some(x)),
            d("A", 2, day2, 2, None, None),
        ];
        let c = calc_total_costs(&deltas);
        vcover!("computed");
        assert!(c.ignored_deltas.len() == 2);
        assert!(c.total.len() == 1);
        assert!(c.total[0].day == day1);
        assert!(*c.total[0].total == dec(a1, 2));
        assert!(**c.total[0].sec_max_cost_for_day.get("A").unwrap() == dec(a1, 2));
        core::mem::forget(c); core::mem::forget(deltas);
    }
}

fn day_costs(day: time::Date, total: i64) -> MaxSingleDayCosts {
    // only the day's total matters to the yearly choice; the per-security map
    // stays empty (cloning a map with String keys selected by a symbolic date
    // is what exhausted 24 GB in the first version of this harness)
    let mut m = MaxSingleDayCosts::new(day);
    m.total = gez(total, 2);
    m
}

co_harness! {
    #[kani::unwind(6)]
    fn c09_yearly_max_tie() {
        // two days of one year with symbolic totals: the day reported for the
        // year must be the same whatever order the map is iterated in
        let t1 = any_in(0, 200); let t2 = any_in(0, 200);
        let day1 = date(50); let day2 = date(80);
        let mut k = 0;
        while k < ks::repeats() {
            let build = || {
                let mut by_day = HashMap::new();
                by_day.insert(day1, day_costs(day1, t1));
                by_day.insert(day2, day_costs(day2, t2));
                let mut secs = HashSet::new();
                secs.insert("A".to_string());
                MaxDayCosts { max_costs_by_day: by_day, security_set: secs, ignored_delta_descs: Vec::new() }
            };
            let m1 = build(); let m2 = build();
            #[cfg(kani)]
            crate::kani_model::collections::set_order_nondet(true);
            let y1 = calc_yearly_max_cost_day(&m1);
            let y2 = calc_yearly_max_cost_day(&m2);
            vcover!("computed twice");
            let r1 = y1.max_costs_for_year.get(&2020).unwrap();
            let r2 = y2.max_costs_for_year.get(&2020).unwrap();
            // C17: a day with maximal total
            assert!(*r1.total == dec(if t1 > t2 { t1 } else { t2 }, 2));
            // C09: the same day in both runs
            assert!(r1.day == r2.day, "yearly max day depends on hash iteration order");
            core::mem::forget(m1); core::mem::forget(m2); core::mem::forget(y1); core::mem::forget(y2);
            k += 1;
        }
    }
}
