// Child module of src/portfolio/model/tx.rs. C07: processing order is
// (settlement date, position in the concatenated input); C11/C01: Tx <-> CsvTx.
#![allow(unused_imports, dead_code, unused_variables)]
use super::*;
use crate::kani_model::ks;
use crate::kani_model::mk::*;
use crate::vcover;

macro_rules! tx_harness {
    ($(#[$m:meta])* fn $name:ident() $body:block) => {
        #[cfg_attr(kani, kani::proof)]
        #[cfg_attr(kani, kani::stub(alloc::fmt::format, crate::kani_model::fmtm::format))]
        #[cfg_attr(kani, kani::stub(core::fmt::write, crate::kani_model::fmtm::write))]
        #[cfg_attr(kani, kani::stub(<time::Date as core::fmt::Display>::fmt, crate::kani_model::fmtm::date_display))]
        #[cfg_attr(kani, kani::stub(<rust_decimal::Decimal as core::fmt::Display>::fmt, crate::kani_model::fmtm::dec_display))]
        #[cfg_attr(kani, kani::stub(crate::portfolio::model::affiliate::Affiliate::from_strep,
                     crate::portfolio::model::affiliate::kani_harness::from_strep_stub))]
        $(#[cfg_attr(kani, $m)])*
        pub fn $name() $body
    };
}

fn tuple_cmp(d1: i64, i1: i64, d2: i64, i2: i64) -> std::cmp::Ordering {
    if d1 < d2 { std::cmp::Ordering::Less }
    else if d1 > d2 { std::cmp::Ordering::Greater }
    else if i1 < i2 { std::cmp::Ordering::Less }
    else if i1 > i2 { std::cmp::Ordering::Greater }
    else { std::cmp::Ordering::Equal }
}

tx_harness! {
    #[kani::unwind(4)]
    fn c07_tx_ord_is_date_then_index() {
        // settlement days over a year boundary: 2019-12-30 .. 2020-01-03 as day numbers 0..4
        let d1 = any_in(0, 4); let d2 = any_in(0, 4);
        let i1 = any_in(0, 70000); let i2 = any_in(0, 70000);
        let mkd = |k: i64| if k < 2 { date_y(2019, 364 + k) } else { date_y(2020, k - 1) };
        let mut a = simple_buy(aff(0), mkd(d1), i1 as u32);
        let mut b = simple_buy(aff(1), mkd(d2), i2 as u32);
        // trade dates deliberately in the opposite order: they must not matter
        a.trade_date = mkd(4 - d1);
        b.trade_date = mkd(4 - d2);
        vcover!("compared");
        let expect = tuple_cmp(d1, i1, d2, i2);
        assert!(a.cmp(&b) == expect);
        assert!(a.partial_cmp(&b) == Some(expect));
        assert!(b.cmp(&a) == expect.reverse());
        let ca = a.to_csvtx(); let cb = b.to_csvtx();
        assert!(ca.cmp(&cb) == expect);
        core::mem::forget(a); core::mem::forget(b); core::mem::forget(ca); core::mem::forget(cb);
    }
}

tx_harness! {
    #[kani::unwind(5)]
    fn c07_sort3_is_stable_by_date_then_index() {
        // three rows in arbitrary input order with distinct read indices (the
        // position in the concatenated input) and symbolic settlement days
        let d0 = any_in(1, 3); let d1 = any_in(1, 3); let d2 = any_in(1, 3);
        let p = any_in(0, 5); // which permutation of read indices 0,1,2 the rows carry
        let (i0, i1, i2) = match p { 0 => (0, 1, 2), 1 => (0, 2, 1), 2 => (1, 0, 2), 3 => (1, 2, 0), 4 => (2, 0, 1), _ => (2, 1, 0) };
        let mut v = vec![simple_buy(aff(0), date(d0), i0), simple_buy(aff(0), date(d1), i1), simple_buy(aff(0), date(d2), i2)];
        v.sort();
        vcover!("sorted");
        // sorted by (date, index), and the same three rows
        let k = |t: &Tx| -> (time::Date, u32) { (t.settlement_date, t.read_index) };
        assert!(k(&v[0]) <= k(&v[1]) && k(&v[1]) <= k(&v[2]));
        let sum = v[0].read_index + v[1].read_index + v[2].read_index;
        assert!(sum == 3 && v[0].read_index != v[1].read_index && v[1].read_index != v[2].read_index && v[0].read_index != v[2].read_index);
        // each row kept its own date
        for t in v.iter() {
            let want = if t.read_index == i0 { d0 } else if t.read_index == i1 { d1 } else { d2 };
            assert!(t.settlement_date == date(want));
        }
        core::mem::forget(v);
    }
}
