// Child module of src/portfolio/model/tx.rs. C07: processing order is
// (settlement date, position in the concatenated input); C11/C01: Tx <-> CsvTx.
#![allow(unused_imports, dead_code, unused_variables)]
use super::*;
use crate::kani_model::ks;
use crate::kani_model::mk::*;
use crate::vcover;

macro_rules! tx_harness {
    ($(#[$m:meta])* fn $name:ident() $body:block) => {
        #[cfg_attr(kani, kani::proof)]
        #[cfg_attr(kani, kani::stub(alloc::fmt::format, crate::kani_model::fmtm::format))]
        #[cfg_attr(kani, kani::stub(core::fmt::write, crate::kani_model::fmtm::write))]
        #[cfg_attr(kani, kani::stub(<time::Date as core::fmt::Display>::fmt, crate::kani_model::fmtm::date_display))]
        #[cfg_attr(kani, kani::stub(<rust_decimal::Decimal as core::fmt::Display>::fmt, crate::kani_model::fmtm::dec_display))]
        #[cfg_attr(kani, kani::stub(crate::portfolio::model::affiliate::Affiliate::from_strep,
                     crate::portfolio::model::affiliate::kani_harness::from_strep_stub))]
        $(#[cfg_attr(kani, $m)])*
        pub fn $name() $body
    };
}

fn tuple_cmp(d1: i64, i1: i64, d2: i64, i2: i64) -> std::cmp::Ordering {
    if d1 < d2 { std::cmp::Ordering::Less }
    else if d1 > d2 { std::cmp::Ordering::Greater }
    else if i1 < i2 { std::cmp::Ordering::Less }
    else if i1 > i2 { std::cmp::Ordering::Greater }
    else { std::cmp::Ordering::Equal }
}

tx_harness! {
    #[kani::unwind(5)]
    fn c07_tx_ord_is_date_then_index() {
        // settlement days over a year boundary: 2019-12-30 .. 2020-01-03 as day numbers 0..4
        let d1 = any_in(0, 4); let d2 = any_in(0, 4);
        let i1 = any_in(0, 70000); let i2 = any_in(0, 70000);
        let mkd = |k: i64| if k < 2 { date_y(2019, 364 + k) } else { date_y(2020, k - 1) };
        let mut a = simple_buy(aff(0), mkd(d1), i1 as u32);
        let mut b = simple_buy(aff(1), mkd(d2), i2 as u32);
        // trade dates deliberately in the opposite order: they must not matter
        a.trade_date = mkd(4 - d1);
        b.trade_date = mkd(4 - d2);
        vcover!("compared");
        let expect = tuple_cmp(d1, i1, d2, i2);
        assert!(a.cmp(&b) == expect);
        assert!(a.partial_cmp(&b) == Some(expect));
        assert!(b.cmp(&a) == expect.reverse());
        let ca = a.to_csvtx(); let cb = b.to_csvtx();
        assert!(ca.cmp(&cb) == expect);
        core::mem::forget(a); core::mem::forget(b); core::mem::forget(ca); core::mem::forget(cb);
    }
}

tx_harness! {
    #[kani::unwind(5)]
    fn c07_sort3_is_stable_by_date_then_index() {
        // three rows in arbitrary input order with distinct read indices (the
        // position in the concatenated input) and symbolic settlement days
        let d0 = any_in(1, 3); let d1 = any_in(1, 3); let d2 = any_in(1, 3);
        let p = any_in(0, 5); // which permutation of read indices 0,1,2 the rows carry
        let (i0, i1, i2) = match p { 0 => (0, 1, 2), 1 => (0, 2, 1), 2 => (1, 0, 2), 3 => (1, 2, 0), 4 => (2, 0, 1), _ => (2, 1, 0) };
        let mut v = vec![simple_buy(aff(0), date(d0), i0), simple_buy(aff(0), date(d1), i1), simple_buy(aff(0), date(d2), i2)];
        v.sort();
        vcover!("sorted");
        // sorted by (date, index), and the same three rows
        let k = |t: &Tx| -> (time::Date, u32) { (t.settlement_date, t.read_index) };
        assert!(k(&v[0]) <= k(&v[1]) && k(&v[1]) <= k(&v[2]));
        let sum = v[0].read_index + v[1].read_index + v[2].read_index;
        assert!(sum == 3 && v[0].read_index != v[1].read_index && v[1].read_index != v[2].read_index && v[0].read_index != v[2].read_index);
        // each row kept its own date
        for t in v.iter() {
            let want = if t.read_index == i0 { d0 } else if t.read_index == i1 { d1 } else { d2 };
            assert!(t.settlement_date == date(want));
        }
        core::mem::forget(v);
    }
}

// ---- C11 (struct layer): Tx -> CsvTx -> Tx is the identity ----------------
fn curr(usd_: bool, rate: i64) -> CurrencyAndExchangeRate {
    if usd_ { usd(rate) } else { cad() }
}
fn roundtrip(t: &Tx) -> Result<Tx, String> {
    Tx::try_from(t.to_csvtx())
}

tx_harness! {
    #[kani::unwind(5)]
    fn c11_roundtrip_buy_sell() {
        let is_sell = ks::any_bool();
        let n = any_in(1, 60000); let p = any_in(0, 60000); let c = any_in(0, 60000);
        let u = ks::any_bool(); let r = any_in(1, 60000);
        let sep = ks::any_bool(); let su = ks::any_bool(); let sr = any_in(1, 60000);
        let has_sfl = ks::any_bool(); let sflv = any_in(0, 60000); let force = ks::any_bool();
        let ccr = if sep { Some(curr(su, sr)) } else { None };
        let specs = if is_sell {
            let s = if has_sfl { Some(SFLInput { superficial_loss: lez(-sflv, 2), force }) } else { None };
            sell(pos(n, 3), gez(p, 4), gez(c, 2), curr(u, r), ccr, s)
        } else {
            buy(pos(n, 3), gez(p, 4), gez(c, 2), curr(u, r), ccr)
        };
        let mut t = tx(aff(if ks::any_bool() { 1 } else { 0 }), date(any_in(1, 366)), any_in(0, 60000) as u32, specs);
        t.trade_date = date(any_in(1, 366));
        let c = t.to_csvtx();
        // the rate column is omitted exactly for CAD; commission currency kept when separate
        assert!(c.tx_curr_to_local_exchange_rate.is_none() == !u);
        assert!(c.commission_currency.is_some() == sep);
        assert!(c.commission_curr_to_local_exchange_rate.is_some() == (sep && su));
        assert!(c.specified_superficial_loss.is_some() == (is_sell && has_sfl));
        let back = Tx::try_from(c);
        vcover!("round trip done");
        match back {
            Ok(b) => { assert!(b == t); core::mem::forget(b); }
            Err(_) => assert!(false, "valid transaction rejected on re-read"),
        }
        core::mem::forget(t);
    }
}

tx_harness! {
    #[kani::unwind(12)]
    fn c11_roundtrip_roc_sfla_split() {
        let which = any_in(0, 2);
        let a = any_in(0, 60000); let n = any_in(1, 60000);
        let u = ks::any_bool(); let r = any_in(1, 60000);
        let post = any_in(1, 100); let pre = any_in(1, 100); let int_only = ks::any_bool();
        let global = ks::any_bool();
        let (specs, af) = if which == 0 {
            (roc(gez(a, 4), curr(u, r)), aff(0))
        } else if which == 1 {
            (sfla(pos(n, 2), pos(a + 1, 4)), aff(1))
        } else {
            (split(pos(post, 1), pos(pre, 0), int_only), if global { Affiliate::global() } else { aff(0) })
        };
        let t = tx(af, date(any_in(1, 366)), any_in(0, 60000) as u32, specs);
        let back = roundtrip(&t);
        vcover!("round trip done");
        match back {
            Ok(b) => { assert!(b == t); core::mem::forget(b); }
            Err(_) => assert!(false, "valid transaction rejected on re-read"),
        }
        core::mem::forget(t);
    }
}

// ---- C01: defaults of a sparse row (commission 0, CAD at rate 1, commission
// currency = transaction currency) ------------------------------------------
tx_harness! {
    #[kani::unwind(5)]
    fn c01_csvtx_defaults() {
        let n = any_in(1, 60000); let p = any_in(0, 60000);
        let has_comm = ks::any_bool(); let c = any_in(0, 60000);
        let has_curr = ks::any_bool(); let u = ks::any_bool(); let r = any_in(1, 60000);
        let is_sell = ks::any_bool();
        let mut row = CsvTx::default();
        row.security = Some(SEC.to_string());
        row.trade_date = Some(date(10));
        row.settlement_date = Some(date(12));
        row.action = Some(if is_sell { TxAction::Sell } else { TxAction::Buy });
        row.shares = Some(dec(n, 2));
        row.amount_per_share = Some(dec(p, 2));
        if has_comm { row.commission = Some(dec(c, 2)); }
        if has_curr {
            row.tx_currency = Some(if u { Currency::usd() } else { Currency::cad() });
            if u { row.tx_curr_to_local_exchange_rate = Some(dec(r, 4)); }
        }
        let t = Tx::try_from(row);
        vcover!("converted");
        match t {
            Ok(t) => {
                let (comm, cr, sep) = match &t.action_specifics {
                    TxActionSpecifics::Buy(b) => (b.commission, b.tx_currency_and_rate.clone(), b.separate_commission_currency.is_some()),
                    TxActionSpecifics::Sell(s) => (s.commission, s.tx_currency_and_rate.clone(), s.separate_commission_currency.is_some()),
                    _ => { assert!(false); unreachable!() }
                };
                assert!(*comm == (if has_comm { dec(c, 2) } else { dec(0, 0) }));
                assert!(!sep);
                if has_curr && u {
                    assert!(cr.currency == Currency::usd() && *cr.exchange_rate == dec(r, 4));
                } else {
                    assert!(cr.currency == Currency::cad() && *cr.exchange_rate == dec(1, 0));
                }
                assert!(t.affiliate == aff(0));
                assert!(t.memo.is_empty());
                core::mem::forget(t);
            }
            Err(_) => assert!(false, "sparse but valid row rejected"),
        }
    }
}
