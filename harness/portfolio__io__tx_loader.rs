// Child module of src/portfolio/io/tx_loader.rs. C12 (row-level clauses): an
// explicit rate in the row always wins, CAD needs none and only accepts 1, any
// other currency must carry its own rate; only USD is looked up.
#![allow(unused_imports, dead_code, unused_variables)]
use super::*;
use crate::fx::io::{InMemoryRatesCache, RateLoadResult, RemoteRateLoader};
use crate::kani_model::ks;
use crate::kani_model::mk::*;
use crate::portfolio::{Tx, TxAction, TxActionSpecifics};
use crate::vcover;

// A Bank of Canada that must never be asked in these harnesses.
struct NeverAsked;
#[async_trait::async_trait(?Send)]
impl RemoteRateLoader for NeverAsked {
    async fn get_remote_usd_cad_rates(&self, _year: u32) -> Result<RateLoadResult, crate::util::basic::SError> {
        panic!("the rate loader was consulted for a row that needs no look-up");
    }
}

// the real today_local reaches chrono's system clock (kani-compiler ICE); the
// loader is never consulted in this harness, so the date is irrelevant
fn some_today() -> time::Date {
    date(200)
}

fn pick_currency(k: i64) -> Option<Currency> {
    match k {
        0 => None,
        1 => Some(Currency::cad()),
        2 => Some(Currency::usd()),
        _ => Some(crate::portfolio::model::currency::kani_harness::xyz()),
    }
}

#[cfg_attr(kani, kani::proof)]
#[cfg_attr(kani, kani::unwind(6))]
#[cfg_attr(kani, kani::stub(alloc::fmt::format, crate::kani_model::fmtm::format))]
#[cfg_attr(kani, kani::stub(core::fmt::write, crate::kani_model::fmtm::write))]
#[cfg_attr(kani, kani::stub(<time::Date as core::fmt::Display>::fmt, crate::kani_model::fmtm::date_display))]
#[cfg_attr(kani, kani::stub(<rust_decimal::Decimal as core::fmt::Display>::fmt, crate::kani_model::fmtm::dec_display))]
#[cfg_attr(kani, kani::stub(crate::portfolio::model::affiliate::Affiliate::from_strep,
             crate::portfolio::model::affiliate::kani_harness::from_strep_stub))]
#[cfg_attr(kani, kani::stub(crate::util::date::today_local, some_today))]
pub fn c12_row_with_explicit_rate() {
    // a Buy row with symbolic currency (none / CAD / USD / XYZ) and an explicit rate
    row_rules(any_in(0, 3), true);
}

macro_rules! no_rate_row {
    ($name:ident, $k:expr) => {
        #[cfg_attr(kani, kani::proof)]
        #[cfg_attr(kani, kani::unwind(6))]
        #[cfg_attr(kani, kani::stub(alloc::fmt::format, crate::kani_model::fmtm::format))]
        #[cfg_attr(kani, kani::stub(core::fmt::write, crate::kani_model::fmtm::write))]
        #[cfg_attr(kani, kani::stub(<time::Date as core::fmt::Display>::fmt, crate::kani_model::fmtm::date_display))]
        #[cfg_attr(kani, kani::stub(<rust_decimal::Decimal as core::fmt::Display>::fmt, crate::kani_model::fmtm::dec_display))]
        #[cfg_attr(kani, kani::stub(crate::portfolio::model::affiliate::Affiliate::from_strep,
                     crate::portfolio::model::affiliate::kani_harness::from_strep_stub))]
        #[cfg_attr(kani, kani::stub(crate::util::date::today_local, some_today))]
        pub fn $name() {
            let salt = ks::any_bool(); // keeps one harness input for the replay protocol
            row_rules($k, false);
        }
    };
}
// rows without a rate: no currency, CAD, XYZ (USD without a rate is the one
// case that goes to the Bank of Canada and is not decided here). The currency
// is fixed per harness so that the look-up path is pruned at symbolic execution.
no_rate_row!(c12_row_no_rate_no_currency, 0);
no_rate_row!(c12_row_no_rate_cad, 1);
no_rate_row!(c12_row_no_rate_other_currency, 3);

fn row_rules(k: i64, has_rate: bool) {
    let rate = any_in(0, 300); // 0.00 .. 3.00, zero included
    let curr = pick_currency(k);
    let provided = if has_rate { Some(dec(rate, 2)) } else { None };
    let mut loader = RateLoader::new(false, Box::new(InMemoryRatesCache::new()), Box::new(NeverAsked),
                                     crate::util::rw::WriteHandle::empty_write_handle());
    let looked_up = async_std::task::block_on(load_rate_if_needed(&date(50), &curr, &provided, &mut loader));
    vcover!("row examined");
    // only USD is ever looked up; another foreign currency without its own rate is an error
    match &looked_up {
        Ok(v) => { assert!(v.is_none()); assert!(!(k == 3 && !has_rate)); }
        Err(_) => assert!(k == 3 && !has_rate),
    }
    // the row as the ledger accepts it
    let mut row = CsvTx::default();
    row.security = Some(SEC.to_string());
    row.trade_date = Some(date(50));
    row.settlement_date = Some(date(52));
    row.action = Some(TxAction::Buy);
    row.shares = Some(dec(3, 0));
    row.amount_per_share = Some(dec(700, 2));
    row.tx_currency = curr;
    row.tx_curr_to_local_exchange_rate = provided;
    let t = Tx::try_from(row);
    let is_cad = k == 0 || k == 1;
    match &t {
        Ok(tx) => {
            vcover!("row accepted");
            let cr = match &tx.action_specifics {
                TxActionSpecifics::Buy(b) => b.tx_currency_and_rate.clone(),
                _ => { assert!(false); unreachable!() }
            };
            if is_cad {
                // CAD needs no rate and only accepts 1
                assert!(!has_rate || (k == 1 && rate == 100));
                assert!(*cr.exchange_rate == dec(1, 0));
                assert!(cr.currency == Currency::cad());
            } else {
                // the explicit rate of the row is the rate used, and it is positive
                assert!(has_rate && rate > 0);
                assert!(*cr.exchange_rate == dec(rate, 2));
                assert!(cr.currency == (if k == 2 { Currency::usd() } else { crate::portfolio::model::currency::kani_harness::xyz() }));
            }
        }
        Err(_) => {
            vcover!("row rejected");
            // rejected exactly when: a rate without a currency, CAD with a rate other than 1,
            // a foreign currency without a (positive) rate
            let bad = (k == 0 && has_rate) || (k == 1 && has_rate && rate != 100) || (!is_cad && (!has_rate || rate == 0));
            assert!(bad);
        }
    }
    core::mem::forget(t); core::mem::forget(looked_up); core::mem::forget(loader);
}
