// Child module of src/portfolio/cumulative_gains.rs. C06: every total equals
// the sum of the rows it summarises; C08: aggregate = sum of the securities'
// own totals.
#![allow(unused_imports, dead_code, unused_variables)]
use super::*;
use crate::kani_model::ks;
use crate::kani_model::mk::*;
use crate::vcover;
use std::rc::Rc;

macro_rules! cg_harness {
    ($(#[$m:meta])* fn $name:ident() $body:block) => {
        #[cfg_attr(kani, kani::proof)]
        #[cfg_attr(kani, kani::stub(alloc::fmt::format, crate::kani_model::fmtm::format))]
        #[cfg_attr(kani, kani::stub(core::fmt::write, crate::kani_model::fmtm::write))]
        #[cfg_attr(kani, kani::stub(crate::portfolio::model::affiliate::Affiliate::from_strep,
                     crate::portfolio::model::affiliate::kani_harness::from_strep_stub))]
        $(#[cfg_attr(kani, $m)])*
        pub fn $name() $body
    };
}

// A signed gain in [-50.00, 50.00] or None (a row without a capital gain).
fn any_gain() -> (bool, i64) {
    let some = ks::any_bool();
    let g = any_in(0, 10000) - 5000;
    (some, g)
}
fn gain_dec(g: (bool, i64)) -> Option<rust_decimal::Decimal> {
    if g.0 { Some(dec(g.1, 2)) } else { None }
}
fn val(g: (bool, i64)) -> i64 {
    if g.0 { g.1 } else { 0 }
}

// Settlement dates: offset 0..3 over the strip Dec 30 2019, Dec 31 2019,
// Jan 1 2020, Jan 2 2020. The *trade* date is one day earlier, so a trade in
// 2019 settling in 2020 is in the strip (totals are keyed by settlement year).
fn strip_date(k: i64) -> (time::Date, i32) {
    if k < 2 { (date_y(2019, 364 + k), 2019) } else { (date_y(2020, k - 1), 2020) }
}

cg_harness! {
    #[kani::unwind(5)]
    fn c06_year_sums_3() {
        let st = status(gez(0, 0), gez(0, 0), Some(gez(0, 0)));
        let g0 = any_gain(); let g1 = any_gain(); let g2 = any_gain();
        let k0 = any_in(0, 3); let k1 = any_in(0, 3); let k2 = any_in(0, 3);
        ks::assume(k0 <= k1 && k1 <= k2);
        let (d0, y0) = strip_date(k0); let (d1, y1) = strip_date(k1); let (d2, y2) = strip_date(k2);
        let mk = |d: time::Date, i: u32, g| {
            let mut t = simple_buy(aff(0), d, i);
            t.trade_date = d.previous_day().unwrap();
            delta_of(t, st.clone(), st.clone(), gain_dec(g))
        };
        let deltas = vec![mk(d0, 0, g0), mk(d1, 1, g1), mk(d2, 2, g2)];
        let r = calc_security_cumulative_capital_gains(&deltas);
        vcover!("computed");
        // table total = sum of all rows' gains
        assert!(r.capital_gains_total == dec(val(g0) + val(g1) + val(g2), 2));
        // yearly totals keyed by the settlement year
        let s19 = (if y0 == 2019 { val(g0) } else { 0 }) + (if y1 == 2019 { val(g1) } else { 0 }) + (if y2 == 2019 { val(g2) } else { 0 });
        let s20 = (if y0 == 2020 { val(g0) } else { 0 }) + (if y1 == 2020 { val(g1) } else { 0 }) + (if y2 == 2020 { val(g2) } else { 0 });
        let any19 = (y0 == 2019 && g0.0) || (y1 == 2019 && g1.0) || (y2 == 2019 && g2.0);
        let any20 = (y0 == 2020 && g0.0) || (y1 == 2020 && g1.0) || (y2 == 2020 && g2.0);
        match r.capital_gains_years_totals.get(&2019) {
            Some(v) => { assert!(any19); assert!(*v == dec(s19, 2)); }
            None => assert!(!any19),
        }
        match r.capital_gains_years_totals.get(&2020) {
            Some(v) => { assert!(any20); assert!(*v == dec(s20, 2)); }
            None => assert!(!any20),
        }
        // the total equals the sum of the years
        assert!(r.capital_gains_total == dec(s19 + s20, 2));
        assert!(r.capital_gains_years_totals.len() == (any19 as usize) + (any20 as usize));
        core::mem::forget(deltas); core::mem::forget(r); core::mem::forget(st);
    }
}

cg_harness! {
    #[kani::unwind(5)]
    fn c06_aggregate_2sec() {
        // two securities with symbolic per-year totals; a third year only in one
        let a19 = any_in(0, 10000) - 5000; let a20 = any_in(0, 10000) - 5000;
        let b20 = any_in(0, 10000) - 5000; let b21 = any_in(0, 10000) - 5000;
        let a_has19 = ks::any_bool();
        let mut ga = CumulativeCapitalGains::default();
        if a_has19 { ga.capital_gains_years_totals.insert(2019, dec(a19, 2)); }
        ga.capital_gains_years_totals.insert(2020, dec(a20, 2));
        ga.capital_gains_total = dec((if a_has19 { a19 } else { 0 }) + a20, 2);
        let mut gb = CumulativeCapitalGains::default();
        gb.capital_gains_years_totals.insert(2020, dec(b20, 2));
        gb.capital_gains_years_totals.insert(2021, dec(b21, 2));
        gb.capital_gains_total = dec(b20 + b21, 2);
        let mut m = HashMap::new();
        m.insert("A".to_string(), ga);
        m.insert("B".to_string(), gb);
        #[cfg(kani)]
        crate::kani_model::collections::set_order_nondet(true);
        let r = calc_cumulative_capital_gains(&m);
        vcover!("computed");
        let e19 = if a_has19 { a19 } else { 0 };
        assert!(r.capital_gains_total == dec(e19 + a20 + b20 + b21, 2));
        match r.capital_gains_years_totals.get(&2019) {
            Some(v) => { assert!(a_has19); assert!(*v == dec(a19, 2)); }
            None => assert!(!a_has19),
        }
        assert!(*r.capital_gains_years_totals.get(&2020).unwrap() == dec(a20 + b20, 2));
        assert!(*r.capital_gains_years_totals.get(&2021).unwrap() == dec(b21, 2));
        // 'since inception' = sum of the years
        assert!(r.capital_gains_years_totals.len() == 2 + (a_has19 as usize));
        let ys = r.capital_gains_year_totals_keys_sorted();
        assert!(ys[ys.len() - 1] == 2021 && ys[ys.len() - 2] == 2020);
        core::mem::forget(m); core::mem::forget(r);
    }
}
