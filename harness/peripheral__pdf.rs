// verif-feature: pdf_parse
// Child module of src/peripheral/pdf.rs. C20: page-order hints never cause a
// page to be skipped or a non-existent page to be requested.
#![allow(unused_imports, dead_code, unused_variables)]
use super::*;
use crate::kani_model::ks;
use crate::kani_model::mk::*;
use crate::vcover;

#[cfg_attr(kani, kani::proof)]
#[cfg_attr(kani, kani::unwind(6))]
#[cfg_attr(kani, kani::stub(alloc::fmt::format, crate::kani_model::fmtm::format))]
pub fn c20_page_chunks_cover_every_page_once_or_more() {
    // up to 4 pages, two hint groups of two symbolic page numbers each
    // (0, out of range and duplicates included)
    let n = any_in(0, 4) as u32;
    let h = [any_in(0, 6) as u32, any_in(0, 6) as u32, any_in(0, 6) as u32, any_in(0, 6) as u32];
    let groups = vec![vec![h[0], h[1]], vec![h[2], h[3]]];
    let out = LazyPageTextVec::safe_page_chunks_with_remainder_pn(n, &groups);
    vcover!("chunked");
    // no chunk is empty unless the document is... (an empty trailing chunk is harmless but wasteful)
    let mut p = 1u32;
    while p <= 4 {
        let mut count = 0;
        for c in out.iter() {
            for q in c.iter() {
                // never a non-existent page
                assert!(*q >= 1 && *q <= n);
                if *q == p { count += 1; }
            }
        }
        // never a skipped page
        if p <= n { assert!(count >= 1, "a page of the document is never visited"); }
        // hinted once or not at all => visited exactly once
        let hinted = (h[0] == p) as u32 + (h[1] == p) as u32 + (h[2] == p) as u32 + (h[3] == p) as u32;
        if p <= n && hinted <= 1 { assert!(count == 1); }
        p += 1;
    }
    // in-range hinted pages keep their relative order inside their group
    if h[0] >= 1 && h[0] <= n && h[1] >= 1 && h[1] <= n {
        assert!(out[0].len() == 2 && out[0][0] == h[0] && out[0][1] == h[1]);
    }
    core::mem::forget(out); core::mem::forget(groups);
}

// Reduced instance (the 4-page / 2x2-hint harness above ran out of memory):
// up to 3 pages, one hint group of two symbolic page numbers.
#[cfg_attr(kani, kani::proof)]
#[cfg_attr(kani, kani::unwind(5))]
#[cfg_attr(kani, kani::stub(alloc::fmt::format, crate::kani_model::fmtm::format))]
pub fn c20_page_chunks_small() {
    let n = any_in(0, 3) as u32;
    let h0 = any_in(0, 4) as u32; let h1 = any_in(0, 4) as u32;
    let groups = vec![vec![h0, h1]];
    let out = LazyPageTextVec::safe_page_chunks_with_remainder_pn(n, &groups);
    vcover!("chunked");
    let mut p = 1u32;
    while p <= 3 {
        let mut count = 0;
        for c in out.iter() {
            for q in c.iter() {
                assert!(*q >= 1 && *q <= n);
                if *q == p { count += 1; }
            }
        }
        if p <= n { assert!(count >= 1, "a page of the document is never visited"); }
        let hinted = (h0 == p) as u32 + (h1 == p) as u32;
        if p <= n && hinted <= 1 { assert!(count == 1); }
        p += 1;
    }
    core::mem::forget(out); core::mem::forget(groups);
}

// Medium instance: up to 4 pages, two hint groups ([h0, h1] and [h2]).
#[cfg_attr(kani, kani::proof)]
#[cfg_attr(kani, kani::unwind(6))]
#[cfg_attr(kani, kani::stub(alloc::fmt::format, crate::kani_model::fmtm::format))]
pub fn c20_page_chunks_medium() {
    let n = any_in(0, 4) as u32;
    let h0 = any_in(0, 5) as u32; let h1 = any_in(0, 5) as u32; let h2 = any_in(0, 5) as u32;
    let groups = vec![vec![h0, h1], vec![h2]];
    let out = LazyPageTextVec::safe_page_chunks_with_remainder_pn(n, &groups);
    vcover!("chunked");
    let mut p = 1u32;
    while p <= 4 {
        let mut count = 0;
        for c in out.iter() {
            for q in c.iter() {
                assert!(*q >= 1 && *q <= n);
                if *q == p { count += 1; }
            }
        }
        if p <= n { assert!(count >= 1, "a page of the document is never visited"); }
        let hinted = (h0 == p) as u32 + (h1 == p) as u32 + (h2 == p) as u32;
        if p <= n && hinted <= 1 { assert!(count == 1); }
        p += 1;
    }
    // in-range hinted pages keep their order inside their group, groups keep theirs
    if h0 >= 1 && h0 <= n && h1 >= 1 && h1 <= n {
        assert!(out[0].len() == 2 && out[0][0] == h0 && out[0][1] == h1);
    }
    core::mem::forget(out); core::mem::forget(groups);
}
