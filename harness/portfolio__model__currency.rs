// Child module of src/portfolio/model/currency.rs: a third currency for the
// harnesses, built without Currency::new's Unicode upper-casing (not
// executable under CBMC at useful cost); natively the public constructor.
#![allow(unused_imports, dead_code)]
use super::*;

pub fn xyz() -> Currency {
    #[cfg(kani)]
    {
        Currency(CurrImpl::Dyn("XYZ".to_string()))
    }
    #[cfg(not(kani))]
    {
        Currency::new("xyz")
    }
}
