#![cfg(kani)]
// Child module of src/portfolio/model/affiliate.rs (cfg(kani) only): builds
// Affiliate values with the real private constructor, and the table that
// replaces the regex normalisation of Affiliate::from_strep in the solver.
use super::*;

pub static mut LONG_IDS: bool = false;

pub fn mk(id: &str, name: &str, registered: bool) -> Affiliate {
    Affiliate::new(AffiliateData { id: id.to_string(), name: name.to_string(), registered })
}

/// Stub for `Affiliate::from_strep`: the spellings the harnesses use.
/// 1-character ids by default (every String == is a memcmp loop the unwind
/// bound must cover); the real ids when LONG_IDS is set.
pub fn from_strep_stub(s: &str) -> Affiliate {
    let long = unsafe { LONG_IDS };
    match s {
        "" | "Default" | "default" => {
            if long { mk("default", "Default", false) } else { mk("d", "D", false) }
        }
        "B" | "b" => mk("b", "B", false),
        "(R)" | "Default (R)" | "default (R)" => {
            if long { mk("default (R)", "Default (R)", true) } else { mk("r", "R", true) }
        }
        "B (R)" | "b (R)" => mk("s", "S", true),
        // the global pseudo-affiliate keeps its real id: is_global() compares with it
        GLOBAL_AF_ID => mk(GLOBAL_AF_ID, "G", false),
        _ => {
            kani::assume(false);
            unreachable!()
        }
    }
}
