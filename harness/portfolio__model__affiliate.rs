#![cfg(kani)]
// Child module of src/portfolio/model/affiliate.rs (cfg(kani) only): builds
// Affiliate values with the real private constructor, and the table that
// replaces the regex normalisation + global dedup table of
// Affiliate::from_strep in the solver.
use super::*;

pub static mut LONG_IDS: bool = false;

pub fn mk(id: &str, name: &str, registered: bool) -> Affiliate {
    Affiliate::new(AffiliateData { id: id.to_string(), name: name.to_string(), registered })
}

// One Arc per affiliate id, like the real AffiliateDedupTable: equal
// affiliates are then pointer-equal and `Arc<T: Eq>::eq` never reaches the
// string comparison (1166 memcmp unwindings in a 3-row window harness before
// this). Ids have pairwise different lengths, so different affiliates are
// told apart by the length check of `String ==`.
static mut T_DEFAULT: Option<Affiliate> = None;
static mut T_B: Option<Affiliate> = None;
static mut T_REG: Option<Affiliate> = None;
static mut T_BREG: Option<Affiliate> = None;
static mut T_GLOBAL: Option<Affiliate> = None;

fn interned(slot: &mut Option<Affiliate>, id: &str, name: &str, registered: bool) -> Affiliate {
    if slot.is_none() {
        *slot = Some(mk(id, name, registered));
    }
    slot.as_ref().unwrap().clone()
}

/// Stub for `Affiliate::from_strep`: the spellings the harnesses use.
/// Short ids by default (every String == is a memcmp loop the unwind bound
/// must cover); the real ids of the default affiliates when LONG_IDS is set
/// (`is_default()` looks at the id). `__global__` always keeps its real id.
#[allow(static_mut_refs)]
pub fn from_strep_stub(s: &str) -> Affiliate {
    let long = unsafe { LONG_IDS };
    unsafe {
        match s {
            "" | "Default" | "default" => {
                if long { interned(&mut T_DEFAULT, "default", "Default", false) } else { interned(&mut T_DEFAULT, "d", "D", false) }
            }
            "B" | "b" => interned(&mut T_B, "bb", "B", false),
            "(R)" | "Default (R)" | "default (R)" => {
                if long { interned(&mut T_REG, "default (R)", "Default (R)", true) } else { interned(&mut T_REG, "rrr", "R", true) }
            }
            "B (R)" | "b (R)" => interned(&mut T_BREG, "ssss", "S", true),
            GLOBAL_AF_ID => interned(&mut T_GLOBAL, GLOBAL_AF_ID, "G", false),
            _ => {
                kani::assume(false);
                unreachable!()
            }
        }
    }
}
