// Child module of src/app/input_parse.rs. C16 / C05: malformed --symbol-base
// values are rejected before any processing, never a panic; a well-formed one
// yields the opening status under the very symbol it carries.
#![allow(unused_imports, dead_code, unused_variables)]
use super::*;
use crate::kani_model::ks;
use crate::kani_model::mk::*;
use crate::vcover;

fn pick(c: u8) -> u8 {
    match c & 3 { 0 => b'F', 1 => b':', 2 => b'1', _ => b' ' }
}

#[cfg_attr(kani, kani::proof)]
#[cfg_attr(kani, kani::unwind(9))]
#[cfg_attr(kani, kani::stub(alloc::fmt::format, crate::kani_model::fmtm::format))]
#[cfg_attr(kani, kani::stub(core::fmt::write, crate::kani_model::fmtm::write))]
#[cfg_attr(kani, kani::stub(<rust_decimal::Decimal as core::fmt::Display>::fmt, crate::kani_model::fmtm::dec_display))]
pub fn c16_symbol_base_strings_of_six_bytes() {
    // every 6-byte string over {'F', ':', '1', ' '}
    let b = [pick(ks::any_u8()), pick(ks::any_u8()), pick(ks::any_u8()), pick(ks::any_u8()), pick(ks::any_u8()), pick(ks::any_u8())];
    let s = String::from_utf8(b.to_vec()).unwrap();
    let r = parse_initial_status(&vec![s]);
    vcover!("parsed");
    let mut colons = 0;
    let mut i = 0;
    while i < 6 { if b[i] == b':' { colons += 1; } i += 1; }
    match &r {
        Ok(m) => {
            vcover!("accepted");
            // exactly SYM:shares:acb
            assert!(colons == 2, "a value with other than three fields was accepted");
            assert!(m.len() == 1);
            for (k, st) in m.iter() {
                // stored under its own (trimmed, non-empty) symbol
                assert!(!k.is_empty());
                assert!(k.as_bytes()[0] != b' ' && k.as_bytes()[k.len() - 1] != b' ');
                assert!(st.security == *k, "opening status carries a different symbol than its key");
                assert!(st.share_balance == st.all_affiliate_share_balance);
                assert!(st.total_acb.is_some());
            }
        }
        Err(_) => { vcover!("rejected"); }
    }
    core::mem::forget(r);
}
