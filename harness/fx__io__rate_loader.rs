// Child module of src/fx/io/rate_loader.rs. C12: the rate used for a USD row
// is the one published for its trade date or the last one before it; never a
// later one, never the zero placeholder. C13: a cache left behind by an earlier
// run never changes an answer.
#![allow(unused_imports, dead_code, unused_variables)]
use super::*;
use crate::fx::io::{InMemoryRatesCache, RateLoadResult};
use crate::kani_model::ks;
use crate::kani_model::mk::*;
use crate::vcover;

macro_rules! rl_harness {
    ($(#[$m:meta])* fn $name:ident() $body:block) => {
        #[cfg_attr(kani, kani::proof)]
        #[cfg_attr(kani, kani::stub(alloc::fmt::format, crate::kani_model::fmtm::format))]
        #[cfg_attr(kani, kani::stub(core::fmt::write, crate::kani_model::fmtm::write))]
        #[cfg_attr(kani, kani::stub(<time::Date as core::fmt::Display>::fmt, crate::kani_model::fmtm::date_display))]
        #[cfg_attr(kani, kani::stub(<rust_decimal::Decimal as core::fmt::Display>::fmt, crate::kani_model::fmtm::dec_display))]
        #[cfg_attr(kani, kani::stub(crate::util::date::today_local, today_stub))]
        $(#[cfg_attr(kani, $m)])*
        pub fn $name() $body
    };
}

// "today": under the solver a plain static read by a stub of today_local (the
// real one falls through to chrono's system clock, which trips a kani-compiler
// ICE); natively the crate's own test hook set_todays_date_for_test.
static mut TODAY_ORD: i64 = 1;
fn today_stub() -> time::Date {
    date(unsafe { TODAY_ORD })
}
fn set_today(k: i64) {
    unsafe { TODAY_ORD = k; }
    #[cfg(not(kani))]
    crate::util::date::set_todays_date_for_test(date(k));
}

// The Bank of Canada as the harness sees it: for year 2020, rates on the days
// Jan 1..Jan 4 whose bit is set in `mask` (only days before `upto` exist yet),
// rate of day k = 1.00 + k/100. Other years: nothing.
struct StripRemote {
    mask: u8,
    upto: i64,
}
static mut REMOTE_CALLS: u32 = 0;

#[async_trait::async_trait(?Send)]
impl RemoteRateLoader for StripRemote {
    async fn get_remote_usd_cad_rates(&self, year: u32) -> Result<RateLoadResult, crate::util::basic::SError> {
        unsafe { REMOTE_CALLS += 1; }
        let mut rates = Vec::with_capacity(4);
        if year == 2020 {
            let mut k = 1;
            while k <= 4 {
                if k < self.upto && (self.mask >> (k - 1)) & 1 == 1 {
                    rates.push(DailyRate { date: date(k), foreign_to_local_rate: dec(100 + k, 2) });
                }
                k += 1;
            }
        }
        Ok(RateLoadResult { rates, non_fatal_errors: Vec::new() })
    }
}

fn published(mask: u8, upto: i64, k: i64) -> bool {
    k >= 1 && k <= 4 && k < upto && (mask >> (k - 1)) & 1 == 1
}
/// The statement's answer: the latest published day <= d (the strip is shorter
/// than the 7-day look-back), else none.
fn expected_day(mask: u8, upto: i64, d: i64) -> i64 {
    let mut k = d;
    while k >= 1 {
        if published(mask, upto, k) {
            return k;
        }
        k -= 1;
    }
    0
}

fn lookup(today: i64, mask: u8, d: i64) {
    set_today(today);
    let mut loader = RateLoader::new(
        false,
        Box::new(InMemoryRatesCache::new()),
        Box::new(StripRemote { mask, upto: today }),
        crate::util::rw::WriteHandle::empty_write_handle(),
    );
    let r = loader.blocking_get_effective_usd_cad_rate(date(d));
    let e = expected_day(mask, today, d);
    match &r {
        Ok(rate) => {
            vcover!("rate found");
            // never the zero placeholder, never a later day's rate
            assert!(!rate.foreign_to_local_rate.is_zero());
            assert!(rate.date <= date(d));
            assert!(e >= 1);
            assert!(rate.date == date(e));
            assert!(rate.foreign_to_local_rate == dec(100 + e, 2));
        }
        Err(_) => {
            vcover!("no rate");
            // an error only when nothing usable exists: today/future without a
            // rate, or nothing published up to the trade date
            assert!(d >= today || e == 0);
        }
    }
    // a trade dated today or later has no rate yet: explanatory error, not a guess
    if d >= today {
        assert!(r.is_err());
    }
    core::mem::forget(r); core::mem::forget(loader);
}

// `today` is fixed per harness (the number of zero-filled days, i.e. the size
// of the year's table, depends on it); the publication calendar (which of
// Jan 1..4 have a rate; Jan 1 always, so the look-back stays inside the year)
// and the trade date are symbolic.
rl_harness! {
    #[kani::unwind(9)]
    fn c12_lookup_today_jan4() {
        let mask = ks::any_u8() | 1;
        let d = any_in(1, 5);
        lookup(4, mask & 0x0f, d);
    }
}
rl_harness! {
    #[kani::unwind(9)]
    fn c12_lookup_today_jan5() {
        let mask = ks::any_u8() | 1;
        let d = any_in(1, 6);
        lookup(5, mask & 0x0f, d);
    }
}

// C13: run 1 on Jan 3 looks up Jan 1 and leaves the year in the cache; run 2 on
// Jan 5 (a new loader over the same cache, the remote now also knows Jan 3 and
// Jan 4) looks up an old date and then a newer one. Every answer must equal the
// answer of a cache-less loader over the same remote data.
rl_harness! {
    #[kani::unwind(9)]
    fn c13_stale_year_after_old_lookup() {
        let mask = (ks::any_u8() | 1) & 0x0f;
        let cache = InMemoryRatesCache::new();
        let shared = cache.rates_by_year.clone();
        set_today(3);
        let mut l1 = RateLoader::new(false, Box::new(cache), Box::new(StripRemote { mask, upto: 3 }),
                                     crate::util::rw::WriteHandle::empty_write_handle());
        let r1 = l1.blocking_get_effective_usd_cad_rate(date(1));
        assert!(r1.is_ok());
        // run 2, two days later
        set_today(5);
        let mut l2 = RateLoader::new(false, Box::new(InMemoryRatesCache { rates_by_year: shared }),
                                     Box::new(StripRemote { mask, upto: 5 }),
                                     crate::util::rw::WriteHandle::empty_write_handle());
        let d_old = any_in(1, 2);
        let d_new = any_in(3, 4);
        let a = l2.blocking_get_effective_usd_cad_rate(date(d_old));
        let b = l2.blocking_get_effective_usd_cad_rate(date(d_new));
        vcover!("two runs done");
        let ea = expected_day(mask, 5, d_old);
        let eb = expected_day(mask, 5, d_new);
        assert!(a.is_ok() && a.as_ref().unwrap().date == date(ea));
        assert!(b.is_ok(), "cache made a look-up fail");
        assert!(b.as_ref().unwrap().date == date(eb), "answer differs from the cache-less answer");
        assert!(b.as_ref().unwrap().foreign_to_local_rate == dec(100 + eb, 2));
        core::mem::forget(a); core::mem::forget(b); core::mem::forget(l1); core::mem::forget(l2); core::mem::forget(r1);
    }
}
