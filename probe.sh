#!/bin/bash
# usage: probe.sh <stage-name> <timeout-s> <jobs> harness...   (development helper)
name=$1; to=$2; jobs=$3; shift 3
cd /verif && python3 -c "import vlib; vlib.stage('$name')" || exit 2
cd /var/tmp/acb-verif/$name
hs=""; for h in "$@"; do hs="$hs --harness $h"; done
export CARGO_NET_OFFLINE=true
ulimit -v 25165824
cargo kani --no-default-features --lib -Z stubbing -Z unstable-options --no-memory-safety-checks --no-overflow-checks --no-undefined-function-checks --no-assertion-reach-checks --target-dir /verif/.cache/kani-target -j $jobs --output-format terse --harness-timeout ${to}s $hs $EXTRA > /var/tmp/acb-verif/$name.log 2>&1
grep -E "Checking harness|VERIFICATION|Verification Time|failed|Failed Checks|cover properties|timed out|error" /var/tmp/acb-verif/$name.log | grep -v "^warning" | head -80
