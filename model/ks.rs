//! Shim between the harnesses and Kani. Under cfg(kani) the functions are
//! kani::any / assume / cover. Under cfg(verif_replay) the same harness source
//! is compiled against the REAL rust_decimal / std HashMap / regex, with no
//! stubs, and `any_*` pops the counterexample values Kani's concrete playback
//! reported (env VERIF_REPLAY_VALS = comma-separated little-endian hex, one
//! item per kani::any() call made by the harness, in call order).
#[cfg(kani)]
mod imp {
    #[inline]
    pub fn any_u8() -> u8 {
        kani::any()
    }
    #[inline]
    pub fn any_u16() -> u16 {
        kani::any()
    }
    #[inline]
    pub fn any_u32() -> u32 {
        kani::any()
    }
    #[inline]
    pub fn any_bool() -> bool {
        kani::any()
    }
    #[inline]
    pub fn assume(c: bool) {
        kani::assume(c)
    }
    #[inline]
    pub fn reached(_what: &'static str) {}
    /// How often a harness repeats a run that depends on per-process
    /// randomness (hash seeds). The solver quantifies over iteration orders, so
    /// once is enough there; natively every new HashMap draws a fresh seed.
    #[inline]
    pub fn repeats() -> usize {
        1
    }
}

#[cfg(not(kani))]
mod imp {
    use std::cell::RefCell;
    thread_local! {
        static VALS: RefCell<Option<Vec<Vec<u8>>>> = RefCell::new(None);
        static POS: RefCell<usize> = RefCell::new(0);
    }
    fn next(n: usize) -> u64 {
        VALS.with(|v| {
            let mut v = v.borrow_mut();
            if v.is_none() {
                let s = std::env::var("VERIF_REPLAY_VALS").unwrap_or_default();
                let parsed: Vec<Vec<u8>> = s
                    .split(',')
                    .filter(|x| !x.is_empty())
                    .map(|h| (0..h.len() / 2).map(|i| u8::from_str_radix(&h[2 * i..2 * i + 2], 16).unwrap()).collect())
                    .collect();
                *v = Some(parsed);
            }
            let p = POS.with(|p| {
                let mut p = p.borrow_mut();
                *p += 1;
                *p - 1
            });
            let vals = v.as_ref().unwrap();
            if p >= vals.len() {
                println!("REPLAY-MISMATCH: harness asked for more values than the counterexample has");
                std::process::exit(4);
            }
            if vals[p].len() != n {
                println!("REPLAY-MISMATCH: value {} has {} bytes, harness expects {}", p, vals[p].len(), n);
                std::process::exit(4);
            }
            let mut x = 0u64;
            for (i, b) in vals[p].iter().enumerate() {
                x |= (*b as u64) << (8 * i);
            }
            x
        })
    }
    pub fn any_u8() -> u8 {
        next(1) as u8
    }
    pub fn any_u16() -> u16 {
        next(2) as u16
    }
    pub fn any_u32() -> u32 {
        next(4) as u32
    }
    pub fn any_bool() -> bool {
        next(1) != 0
    }
    pub fn assume(c: bool) {
        if !c {
            println!("REPLAY-ASSUME-FAILED");
            std::process::exit(3);
        }
    }
    pub fn reached(what: &'static str) {
        println!("REPLAY-REACHED {}", what);
    }
    pub fn repeats() -> usize {
        300
    }
}

pub use imp::*;

/// Reachability witness: a kani::cover! under the solver (a harness whose
/// covers are not all satisfied is reported as vacuous, never as a pass).
#[macro_export]
macro_rules! vcover {
    ($what:literal) => {{
        #[cfg(kani)]
        kani::cover!(true, $what);
        #[cfg(not(kani))]
        $crate::kani_model::ks::reached($what);
    }};
}
