//! Verification-only support code compiled into the staged copy of acb
//! (`pub mod kani_model;` appended to src/lib.rs by the overlay, under
//! cfg(kani) for the solver and under cfg(verif_replay) for native replay).
//! Everything here is part of the trusted base listed in every evidence file.
#[cfg(kani)]
pub mod collections;
#[cfg(kani)]
pub mod fmtm;
pub mod ks;
pub mod mk;

/// `WIDE` = thorough-tier value ranges (written into the staged copy by the runner).
pub mod tier {
    include!(concat!(env!("CARGO_MANIFEST_DIR"), "/src/verif_tier.rs"));
}
