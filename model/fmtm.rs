//! Formatting stubs: error *texts* are not examined by the bookkeeping
//! harnesses (only Ok/Err and position), so building them is cut out.
pub fn format(_args: core::fmt::Arguments<'_>) -> String {
    String::new()
}
pub fn write(_w: &mut dyn core::fmt::Write, _args: core::fmt::Arguments<'_>) -> core::fmt::Result {
    Ok(())
}
pub fn date_display(_d: &time::Date, _f: &mut core::fmt::Formatter<'_>) -> core::fmt::Result {
    Ok(())
}
pub fn dec_display(_d: &rust_decimal::Decimal, _f: &mut core::fmt::Formatter<'_>) -> core::fmt::Result {
    Ok(())
}
