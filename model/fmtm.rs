//! Formatting stubs: error *texts* are not examined by the bookkeeping
//! harnesses (only Ok/Err and position), so building them is cut out.
pub fn format(_args: core::fmt::Arguments<'_>) -> String {
    // A real one-byte allocation, not String::new(): CBMC reported spurious
    // __rust_dealloc failures when an Err(String::new()) produced under a
    // symbolic condition was dropped (the dangling pointer of an empty String
    // merged with a heap pointer).
    let mut s = String::with_capacity(1);
    s.push('e');
    s
}
pub fn write(_w: &mut dyn core::fmt::Write, _args: core::fmt::Arguments<'_>) -> core::fmt::Result {
    Ok(())
}
pub fn date_display(_d: &time::Date, _f: &mut core::fmt::Formatter<'_>) -> core::fmt::Result {
    Ok(())
}
pub fn dec_display(_d: &rust_decimal::Decimal, _f: &mut core::fmt::Formatter<'_>) -> core::fmt::Result {
    Ok(())
}
