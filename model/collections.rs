//! Fixed-capacity, heap-free stand-ins for std::collections::{HashMap, HashSet}.
//!
//! std's SipHash tables do not get through CBMC (a 2-entry map did not finish
//! in 10 minutes), and a Vec-backed map whose number of entries depends on
//! symbolic data becomes a symbolic-size heap object that CBMC hands to its
//! array theory (> 20 GB). So a map is `CAP` inline slots plus a length; every
//! access is a loop over the constant slot indices. More than `CAP` entries is
//! outside the bound (the path is cut, and reported by the cover witnesses if
//! that makes a harness vacuous).
//!
//! Map semantics are exact. Iteration order is HashMap's contract --
//! unspecified -- and is modelled as: insertion order rotated by a
//! nondeterministic offset and optionally reversed, when `ORDER_NONDET` is
//! switched on by the harness (off: insertion order).
use core::borrow::Borrow;

pub use std::collections::{BTreeMap, BTreeSet, VecDeque};

pub const CAP: usize = 4;

pub static mut ORDER_NONDET: bool = false;

pub fn set_order_nondet(on: bool) {
    unsafe {
        ORDER_NONDET = on;
    }
}

#[inline]
fn pick_order(len: usize) -> (usize, bool) {
    if len > 1 && unsafe { ORDER_NONDET } {
        let start: usize = kani::any::<u8>() as usize;
        kani::assume(start < len);
        let rev: bool = kani::any();
        (start, rev)
    } else {
        (0, false)
    }
}

/// Position of the i-th element of the rotated/reversed order, without `%`.
#[inline]
fn pos(len: usize, start: usize, rev: bool, i: usize) -> usize {
    let j = if rev { len - 1 - i } else { i };
    let p = start + j;
    if p >= len {
        p - len
    } else {
        p
    }
}

#[inline]
fn over_capacity() -> ! {
    kani::assume(false);
    unreachable!()
}

/// The slots live in ONE constant-size heap object: moving a map (into an
/// Option, a Result, a struct returned by value) then moves a pointer. With the
/// slots inline, rustc's moves of the enclosing structs became memcpy over
/// byte arrays, which CBMC's array theory could not digest (24 GB in minutes).
pub struct Inner<K, V> {
    s: [Option<(K, V)>; CAP],
    len: usize,
}
pub struct HashMap<K, V> {
    b: Box<Inner<K, V>>,
}

impl<K, V> Default for HashMap<K, V> {
    fn default() -> Self {
        HashMap { b: Box::new(Inner { s: [None, None, None, None], len: 0 }) }
    }
}

impl<K: Clone, V: Clone> Clone for HashMap<K, V> {
    fn clone(&self) -> Self {
        HashMap {
            b: Box::new(Inner {
                s: [self.b.s[0].clone(), self.b.s[1].clone(), self.b.s[2].clone(), self.b.s[3].clone()],
                len: self.b.len,
            }),
        }
    }
}

impl<K: Eq, V> HashMap<K, V> {
    pub fn new() -> Self {
        Self::default()
    }
    pub fn with_capacity(_n: usize) -> Self {
        Self::default()
    }
    pub fn len(&self) -> usize {
        self.b.len
    }
    pub fn is_empty(&self) -> bool {
        self.b.len == 0
    }
    pub fn clear(&mut self) {
        *self = Self::default();
    }
    fn push_back(&mut self, k: K, v: V) {
        // constant subscripts only
        let mut i = 0;
        while i < CAP {
            if i == self.b.len {
                self.b.s[i] = Some((k, v));
                self.b.len += 1;
                return;
            }
            i += 1;
        }
        over_capacity();
    }
    pub fn insert(&mut self, k: K, v: V) -> Option<V> {
        let mut i = 0;
        while i < CAP {
            if let Some(kv) = &mut self.b.s[i] {
                if kv.0 == k {
                    return Some(core::mem::replace(&mut kv.1, v));
                }
            }
            i += 1;
        }
        self.push_back(k, v);
        None
    }
    pub fn get<Q: ?Sized + Eq>(&self, k: &Q) -> Option<&V>
    where
        K: Borrow<Q>,
    {
        let mut i = 0;
        while i < CAP {
            if let Some(kv) = &self.b.s[i] {
                if kv.0.borrow() == k {
                    return Some(&kv.1);
                }
            }
            i += 1;
        }
        None
    }
    pub fn get_key_value<Q: ?Sized + Eq>(&self, k: &Q) -> Option<(&K, &V)>
    where
        K: Borrow<Q>,
    {
        let mut i = 0;
        while i < CAP {
            if let Some(kv) = &self.b.s[i] {
                if kv.0.borrow() == k {
                    return Some((&kv.0, &kv.1));
                }
            }
            i += 1;
        }
        None
    }
    pub fn get_mut<Q: ?Sized + Eq>(&mut self, k: &Q) -> Option<&mut V>
    where
        K: Borrow<Q>,
    {
        for slot in self.b.s.iter_mut() {
            if let Some(kv) = slot {
                if kv.0.borrow() == k {
                    return Some(&mut kv.1);
                }
            }
        }
        None
    }
    pub fn contains_key<Q: ?Sized + Eq>(&self, k: &Q) -> bool
    where
        K: Borrow<Q>,
    {
        self.get(k).is_some()
    }
    pub fn remove<Q: ?Sized + Eq>(&mut self, k: &Q) -> Option<V>
    where
        K: Borrow<Q>,
    {
        let mut found: Option<(K, V)> = None;
        let mut i = 0;
        while i < CAP {
            if found.is_none() {
                let hit = match &self.b.s[i] {
                    Some(kv) => kv.0.borrow() == k,
                    None => false,
                };
                if hit {
                    found = self.b.s[i].take();
                }
            } else {
                // shift the rest down to keep insertion order dense
                let nxt = self.b.s[i].take();
                self.b.s[i - 1] = nxt;
            }
            i += 1;
        }
        match found {
            Some(kv) => {
                self.b.len -= 1;
                Some(kv.1)
            }
            None => None,
        }
    }
    pub fn iter(&self) -> Iter<'_, K, V> {
        let (start, rev) = pick_order(self.b.len);
        Iter { m: self, start, rev, i: 0 }
    }
    pub fn keys(&self) -> Keys<'_, K, V> {
        Keys(self.iter())
    }
    pub fn values(&self) -> Values<'_, K, V> {
        Values(self.iter())
    }
    pub fn iter_mut(&mut self) -> impl Iterator<Item = (&K, &mut V)> {
        // order-insensitive uses only (acb mutates every value in place)
        self.b.s.iter_mut().filter_map(|s| s.as_mut().map(|kv| (&kv.0, &mut kv.1)))
    }
    pub fn values_mut(&mut self) -> impl Iterator<Item = &mut V> {
        self.b.s.iter_mut().filter_map(|s| s.as_mut().map(|kv| &mut kv.1))
    }
    pub fn entry(&mut self, k: K) -> Entry<'_, K, V> {
        Entry { m: self, k }
    }
    pub fn extend<I: IntoIterator<Item = (K, V)>>(&mut self, it: I) {
        for (k, v) in it {
            self.insert(k, v);
        }
    }
    pub fn drain(&mut self) -> IntoIter<K, V> {
        core::mem::take(self).into_iter()
    }
    pub fn retain<F: FnMut(&K, &mut V) -> bool>(&mut self, mut f: F) {
        let old = core::mem::take(self);
        let inner = *old.b;
        let [a, b, c, d] = inner.s;
        for slot in [a, b, c, d] {
            if let Some((k, mut v)) = slot {
                if f(&k, &mut v) {
                    self.push_back(k, v);
                }
            }
        }
    }
    pub fn into_keys(self) -> impl Iterator<Item = K> {
        self.into_iter().map(|kv| kv.0)
    }
    pub fn into_values(self) -> impl Iterator<Item = V> {
        self.into_iter().map(|kv| kv.1)
    }
    #[inline]
    fn at(&self, p: usize) -> Option<&(K, V)> {
        // constant subscripts: p is matched against 0..CAP
        match p {
            0 => self.b.s[0].as_ref(),
            1 => self.b.s[1].as_ref(),
            2 => self.b.s[2].as_ref(),
            3 => self.b.s[3].as_ref(),
            _ => None,
        }
    }
}

pub struct Entry<'a, K, V> {
    m: &'a mut HashMap<K, V>,
    k: K,
}
impl<'a, K: Eq, V> Entry<'a, K, V> {
    pub fn or_insert(self, v: V) -> &'a mut V {
        self.or_insert_with(|| v)
    }
    pub fn or_insert_with<F: FnOnce() -> V>(self, f: F) -> &'a mut V {
        if !self.m.contains_key(&self.k) {
            self.m.push_back(self.k, f());
            let mut i = CAP;
            while i > 0 {
                i -= 1;
                if i + 1 == self.m.b.len {
                    return &mut self.m.b.s[i].as_mut().unwrap().1;
                }
            }
            unreachable!()
        } else {
            let k = self.k;
            self.m.get_mut(&k).unwrap()
        }
    }
    pub fn or_default(self) -> &'a mut V
    where
        V: Default,
    {
        self.or_insert_with(V::default)
    }
}

pub struct Iter<'a, K, V> {
    m: &'a HashMap<K, V>,
    start: usize,
    rev: bool,
    i: usize,
}
impl<'a, K: Eq, V> Iterator for Iter<'a, K, V> {
    type Item = (&'a K, &'a V);
    fn next(&mut self) -> Option<Self::Item> {
        if self.i >= self.m.b.len {
            return None;
        }
        let p = pos(self.m.b.len, self.start, self.rev, self.i);
        self.i += 1;
        self.m.at(p).map(|kv| (&kv.0, &kv.1))
    }
    // lower bound 0 on purpose: `collect()` then starts from Vec's constant
    // minimum capacity instead of a symbolic with_capacity(len)
    fn size_hint(&self) -> (usize, Option<usize>) {
        (0, Some(CAP))
    }
}
pub struct Keys<'a, K, V>(Iter<'a, K, V>);
impl<'a, K: Eq, V> Iterator for Keys<'a, K, V> {
    type Item = &'a K;
    fn next(&mut self) -> Option<&'a K> {
        self.0.next().map(|kv| kv.0)
    }
    fn size_hint(&self) -> (usize, Option<usize>) {
        self.0.size_hint()
    }
}
pub struct Values<'a, K, V>(Iter<'a, K, V>);
impl<'a, K: Eq, V> Iterator for Values<'a, K, V> {
    type Item = &'a V;
    fn next(&mut self) -> Option<&'a V> {
        self.0.next().map(|kv| kv.1)
    }
    fn size_hint(&self) -> (usize, Option<usize>) {
        self.0.size_hint()
    }
}

impl<'a, K: Eq, V> IntoIterator for &'a HashMap<K, V> {
    type Item = (&'a K, &'a V);
    type IntoIter = Iter<'a, K, V>;
    fn into_iter(self) -> Iter<'a, K, V> {
        self.iter()
    }
}

pub struct IntoIter<K, V> {
    b: Box<Inner<K, V>>,
    start: usize,
    rev: bool,
    i: usize,
}
impl<K, V> Iterator for IntoIter<K, V> {
    type Item = (K, V);
    fn next(&mut self) -> Option<(K, V)> {
        if self.i >= self.b.len {
            return None;
        }
        let p = pos(self.b.len, self.start, self.rev, self.i);
        self.i += 1;
        match p {
            0 => self.b.s[0].take(),
            1 => self.b.s[1].take(),
            2 => self.b.s[2].take(),
            3 => self.b.s[3].take(),
            _ => None,
        }
    }
    fn size_hint(&self) -> (usize, Option<usize>) {
        (0, Some(CAP))
    }
}
impl<K: Eq, V> IntoIterator for HashMap<K, V> {
    type Item = (K, V);
    type IntoIter = IntoIter<K, V>;
    fn into_iter(self) -> IntoIter<K, V> {
        let (start, rev) = pick_order(self.b.len);
        IntoIter { b: self.b, start, rev, i: 0 }
    }
}
impl<K: Eq, V> FromIterator<(K, V)> for HashMap<K, V> {
    fn from_iter<I: IntoIterator<Item = (K, V)>>(it: I) -> Self {
        let mut m = HashMap::new();
        m.extend(it);
        m
    }
}
impl<K: Eq, V, const N: usize> From<[(K, V); N]> for HashMap<K, V> {
    fn from(a: [(K, V); N]) -> Self {
        a.into_iter().collect()
    }
}
impl<K: Eq + Borrow<Q>, Q: ?Sized + Eq, V> core::ops::Index<&Q> for HashMap<K, V> {
    type Output = V;
    fn index(&self, k: &Q) -> &V {
        self.get(k).expect("no entry found for key")
    }
}
impl<K: Eq, V: PartialEq> PartialEq for HashMap<K, V> {
    fn eq(&self, o: &Self) -> bool {
        if self.b.len != o.b.len {
            return false;
        }
        let mut i = 0;
        while i < CAP {
            if let Some(kv) = &self.b.s[i] {
                match o.get(&kv.0) {
                    Some(ov) if *ov == kv.1 => {}
                    _ => return false,
                }
            }
            i += 1;
        }
        true
    }
}
impl<K: Eq, V: Eq> Eq for HashMap<K, V> {}
impl<K: core::fmt::Debug, V: core::fmt::Debug> core::fmt::Debug for HashMap<K, V> {
    fn fmt(&self, f: &mut core::fmt::Formatter<'_>) -> core::fmt::Result {
        f.debug_map().entries(self.b.s.iter().flatten().map(|kv| (&kv.0, &kv.1))).finish()
    }
}

pub struct HashSet<K> {
    m: HashMap<K, ()>,
}
impl<K> Default for HashSet<K> {
    fn default() -> Self {
        HashSet { m: HashMap::default() }
    }
}
impl<K: Clone> Clone for HashSet<K> {
    fn clone(&self) -> Self {
        HashSet { m: self.m.clone() }
    }
}
impl<K: Eq> HashSet<K> {
    pub fn new() -> Self {
        Self::default()
    }
    pub fn with_capacity(_n: usize) -> Self {
        Self::default()
    }
    pub fn len(&self) -> usize {
        self.m.len()
    }
    pub fn is_empty(&self) -> bool {
        self.m.is_empty()
    }
    pub fn clear(&mut self) {
        self.m.clear()
    }
    pub fn insert(&mut self, k: K) -> bool {
        if self.m.contains_key(&k) {
            false
        } else {
            self.m.push_back(k, ());
            true
        }
    }
    pub fn contains<Q: ?Sized + Eq>(&self, k: &Q) -> bool
    where
        K: Borrow<Q>,
    {
        self.m.contains_key(k)
    }
    pub fn get<Q: ?Sized + Eq>(&self, k: &Q) -> Option<&K>
    where
        K: Borrow<Q>,
    {
        self.m.get_key_value(k).map(|kv| kv.0)
    }
    pub fn remove<Q: ?Sized + Eq>(&mut self, k: &Q) -> bool
    where
        K: Borrow<Q>,
    {
        self.m.remove(k).is_some()
    }
    pub fn iter(&self) -> Keys<'_, K, ()> {
        self.m.keys()
    }
    pub fn drain(&mut self) -> SetIntoIter<K> {
        core::mem::take(self).into_iter()
    }
    pub fn retain<F: FnMut(&K) -> bool>(&mut self, mut f: F) {
        self.m.retain(|k, _| f(k));
    }
    pub fn extend<I: IntoIterator<Item = K>>(&mut self, it: I) {
        for k in it {
            self.insert(k);
        }
    }
}
impl<'a, K: Eq> IntoIterator for &'a HashSet<K> {
    type Item = &'a K;
    type IntoIter = Keys<'a, K, ()>;
    fn into_iter(self) -> Keys<'a, K, ()> {
        self.iter()
    }
}
pub struct SetIntoIter<K>(IntoIter<K, ()>);
impl<K> Iterator for SetIntoIter<K> {
    type Item = K;
    fn next(&mut self) -> Option<K> {
        self.0.next().map(|kv| kv.0)
    }
    fn size_hint(&self) -> (usize, Option<usize>) {
        (0, Some(CAP))
    }
}
impl<K: Eq> IntoIterator for HashSet<K> {
    type Item = K;
    type IntoIter = SetIntoIter<K>;
    fn into_iter(self) -> SetIntoIter<K> {
        SetIntoIter(self.m.into_iter())
    }
}
impl<K: Eq> FromIterator<K> for HashSet<K> {
    fn from_iter<I: IntoIterator<Item = K>>(it: I) -> Self {
        let mut s = HashSet::new();
        s.extend(it);
        s
    }
}
impl<K: Eq, const N: usize> From<[K; N]> for HashSet<K> {
    fn from(a: [K; N]) -> Self {
        a.into_iter().collect()
    }
}
impl<K: Eq> PartialEq for HashSet<K> {
    fn eq(&self, o: &Self) -> bool {
        self.m == o.m
    }
}
impl<K: Eq> Eq for HashSet<K> {}
impl<K: core::fmt::Debug> core::fmt::Debug for HashSet<K> {
    fn fmt(&self, f: &mut core::fmt::Formatter<'_>) -> core::fmt::Result {
        f.debug_set().entries(self.m.b.s.iter().flatten().map(|kv| &kv.0)).finish()
    }
}
