//! Vec-backed stand-ins for std::collections::{HashMap, HashSet}
//! (std's SipHash tables do not get through CBMC: a 2-entry map did not
//! finish in 10 minutes). Map semantics are exact. Iteration order is
//! HashMap's contract -- unspecified -- and is modelled as: insertion order
//! rotated by a nondeterministic offset and optionally reversed, when
//! `ORDER_NONDET` is switched on by the harness (off: insertion order).
use core::borrow::Borrow;

pub use std::collections::{BTreeMap, BTreeSet, VecDeque};

pub static mut ORDER_NONDET: bool = false;

pub fn set_order_nondet(on: bool) {
    unsafe {
        ORDER_NONDET = on;
    }
}

#[inline]
fn pick_order(len: usize) -> (usize, bool) {
    if len > 1 && unsafe { ORDER_NONDET } {
        let start: usize = kani::any();
        kani::assume(start < len);
        let rev: bool = kani::any();
        (start, rev)
    } else {
        (0, false)
    }
}

#[inline]
fn pos(len: usize, start: usize, rev: bool, i: usize) -> usize {
    // i-th element of the rotated/reversed order, without `%`.
    let j = if rev { len - 1 - i } else { i };
    let p = start + j;
    if p >= len {
        p - len
    } else {
        p
    }
}

#[derive(Clone)]
pub struct HashMap<K, V> {
    e: Vec<(K, V)>,
}

impl<K, V> Default for HashMap<K, V> {
    fn default() -> Self {
        HashMap { e: Vec::new() }
    }
}

impl<K: Eq, V> HashMap<K, V> {
    pub fn new() -> Self {
        HashMap { e: Vec::new() }
    }
    pub fn with_capacity(n: usize) -> Self {
        HashMap { e: Vec::with_capacity(n) }
    }
    pub fn len(&self) -> usize {
        self.e.len()
    }
    pub fn is_empty(&self) -> bool {
        self.e.is_empty()
    }
    pub fn clear(&mut self) {
        self.e.clear()
    }
    // NOTE: no lookup returns a symbolic *index* that is then used to
    // subscript the Vec -- symbolic subscripts put the heap array into CBMC's
    // array theory (tens of GB in post-processing). References are returned
    // straight out of the scan loop instead.
    fn find<Q: ?Sized + Eq>(&self, k: &Q) -> Option<usize>
    where
        K: Borrow<Q>,
    {
        let mut i = 0;
        while i < self.e.len() {
            if self.e[i].0.borrow() == k {
                return Some(i);
            }
            i += 1;
        }
        None
    }
    pub fn insert(&mut self, k: K, v: V) -> Option<V> {
        for kv in self.e.iter_mut() {
            if kv.0 == k {
                return Some(core::mem::replace(&mut kv.1, v));
            }
        }
        self.e.push((k, v));
        None
    }
    pub fn get<Q: ?Sized + Eq>(&self, k: &Q) -> Option<&V>
    where
        K: Borrow<Q>,
    {
        for kv in self.e.iter() {
            if kv.0.borrow() == k {
                return Some(&kv.1);
            }
        }
        None
    }
    pub fn get_mut<Q: ?Sized + Eq>(&mut self, k: &Q) -> Option<&mut V>
    where
        K: Borrow<Q>,
    {
        for kv in self.e.iter_mut() {
            if kv.0.borrow() == k {
                return Some(&mut kv.1);
            }
        }
        None
    }
    pub fn contains_key<Q: ?Sized + Eq>(&self, k: &Q) -> bool
    where
        K: Borrow<Q>,
    {
        for kv in self.e.iter() {
            if kv.0.borrow() == k {
                return true;
            }
        }
        false
    }
    pub fn remove<Q: ?Sized + Eq>(&mut self, k: &Q) -> Option<V>
    where
        K: Borrow<Q>,
    {
        match self.find(k) {
            Some(i) => Some(self.e.remove(i).1),
            None => None,
        }
    }
    pub fn iter(&self) -> Iter<'_, K, V> {
        let (start, rev) = pick_order(self.e.len());
        Iter { e: &self.e, start, rev, i: 0 }
    }
    pub fn keys(&self) -> Keys<'_, K, V> {
        Keys(self.iter())
    }
    pub fn values(&self) -> Values<'_, K, V> {
        Values(self.iter())
    }
    pub fn iter_mut(&mut self) -> core::slice::IterMut<'_, (K, V)> {
        // order-insensitive uses only (acb mutates every value in place)
        self.e.iter_mut()
    }
    pub fn values_mut(&mut self) -> impl Iterator<Item = &mut V> {
        self.e.iter_mut().map(|kv| &mut kv.1)
    }
    pub fn entry(&mut self, k: K) -> Entry<'_, K, V> {
        Entry { m: self, k }
    }
    pub fn extend<I: IntoIterator<Item = (K, V)>>(&mut self, it: I) {
        for (k, v) in it {
            self.insert(k, v);
        }
    }
    pub fn drain(&mut self) -> IntoIter<K, V> {
        core::mem::take(self).into_iter()
    }
    pub fn retain<F: FnMut(&K, &mut V) -> bool>(&mut self, mut f: F) {
        self.e.retain_mut(|kv| f(&kv.0, &mut kv.1));
    }
    pub fn into_keys(self) -> impl Iterator<Item = K> {
        self.into_iter().map(|kv| kv.0)
    }
    pub fn into_values(self) -> impl Iterator<Item = V> {
        self.into_iter().map(|kv| kv.1)
    }
    pub fn get_key_value<Q: ?Sized + Eq>(&self, k: &Q) -> Option<(&K, &V)>
    where
        K: Borrow<Q>,
    {
        for kv in self.e.iter() {
            if kv.0.borrow() == k {
                return Some((&kv.0, &kv.1));
            }
        }
        None
    }
}

pub struct Entry<'a, K, V> {
    m: &'a mut HashMap<K, V>,
    k: K,
}
impl<'a, K: Eq, V> Entry<'a, K, V> {
    pub fn or_insert(self, v: V) -> &'a mut V {
        self.or_insert_with(|| v)
    }
    pub fn or_insert_with<F: FnOnce() -> V>(self, f: F) -> &'a mut V {
        if !self.m.contains_key(&self.k) {
            self.m.e.push((self.k, f()));
            return &mut self.m.e.last_mut().unwrap().1;
        }
        for kv in self.m.e.iter_mut() {
            if kv.0 == self.k {
                return &mut kv.1;
            }
        }
        unreachable!()
    }
    pub fn or_default(self) -> &'a mut V
    where
        V: Default,
    {
        self.or_insert_with(V::default)
    }
}

pub struct Iter<'a, K, V> {
    e: &'a Vec<(K, V)>,
    start: usize,
    rev: bool,
    i: usize,
}
impl<'a, K, V> Iterator for Iter<'a, K, V> {
    type Item = (&'a K, &'a V);
    fn next(&mut self) -> Option<Self::Item> {
        if self.i >= self.e.len() {
            return None;
        }
        let p = pos(self.e.len(), self.start, self.rev, self.i);
        self.i += 1;
        let kv = &self.e[p];
        Some((&kv.0, &kv.1))
    }
    fn size_hint(&self) -> (usize, Option<usize>) {
        let n = self.e.len() - self.i;
        (n, Some(n))
    }
}
pub struct Keys<'a, K, V>(Iter<'a, K, V>);
impl<'a, K, V> Iterator for Keys<'a, K, V> {
    type Item = &'a K;
    fn next(&mut self) -> Option<&'a K> {
        self.0.next().map(|kv| kv.0)
    }
    fn size_hint(&self) -> (usize, Option<usize>) {
        self.0.size_hint()
    }
}
pub struct Values<'a, K, V>(Iter<'a, K, V>);
impl<'a, K, V> Iterator for Values<'a, K, V> {
    type Item = &'a V;
    fn next(&mut self) -> Option<&'a V> {
        self.0.next().map(|kv| kv.1)
    }
    fn size_hint(&self) -> (usize, Option<usize>) {
        self.0.size_hint()
    }
}

impl<'a, K: Eq, V> IntoIterator for &'a HashMap<K, V> {
    type Item = (&'a K, &'a V);
    type IntoIter = Iter<'a, K, V>;
    fn into_iter(self) -> Iter<'a, K, V> {
        self.iter()
    }
}
impl<'a, K: Eq, V> IntoIterator for &'a mut HashMap<K, V> {
    type Item = &'a mut (K, V);
    type IntoIter = core::slice::IterMut<'a, (K, V)>;
    fn into_iter(self) -> Self::IntoIter {
        self.e.iter_mut()
    }
}

pub struct IntoIter<K, V> {
    e: Vec<Option<(K, V)>>,
    start: usize,
    rev: bool,
    i: usize,
}
impl<K, V> Iterator for IntoIter<K, V> {
    type Item = (K, V);
    fn next(&mut self) -> Option<(K, V)> {
        if self.i >= self.e.len() {
            return None;
        }
        let p = pos(self.e.len(), self.start, self.rev, self.i);
        self.i += 1;
        self.e[p].take()
    }
}
impl<K: Eq, V> IntoIterator for HashMap<K, V> {
    type Item = (K, V);
    type IntoIter = IntoIter<K, V>;
    fn into_iter(self) -> IntoIter<K, V> {
        let (start, rev) = pick_order(self.e.len());
        IntoIter { e: self.e.into_iter().map(Some).collect(), start, rev, i: 0 }
    }
}
impl<K: Eq, V> FromIterator<(K, V)> for HashMap<K, V> {
    fn from_iter<I: IntoIterator<Item = (K, V)>>(it: I) -> Self {
        let mut m = HashMap::new();
        m.extend(it);
        m
    }
}
impl<K: Eq, V, const N: usize> From<[(K, V); N]> for HashMap<K, V> {
    fn from(a: [(K, V); N]) -> Self {
        a.into_iter().collect()
    }
}
impl<K: Eq + Borrow<Q>, Q: ?Sized + Eq, V> core::ops::Index<&Q> for HashMap<K, V> {
    type Output = V;
    fn index(&self, k: &Q) -> &V {
        self.get(k).expect("no entry found for key")
    }
}
impl<K: Eq, V: PartialEq> PartialEq for HashMap<K, V> {
    fn eq(&self, o: &Self) -> bool {
        if self.e.len() != o.e.len() {
            return false;
        }
        for (k, v) in &self.e {
            match o.get(k) {
                Some(ov) if ov == v => {}
                _ => return false,
            }
        }
        true
    }
}
impl<K: Eq, V: Eq> Eq for HashMap<K, V> {}
impl<K: core::fmt::Debug, V: core::fmt::Debug> core::fmt::Debug for HashMap<K, V> {
    fn fmt(&self, f: &mut core::fmt::Formatter<'_>) -> core::fmt::Result {
        f.debug_map().entries(self.e.iter().map(|kv| (&kv.0, &kv.1))).finish()
    }
}

#[derive(Clone)]
pub struct HashSet<K> {
    m: HashMap<K, ()>,
}
impl<K> Default for HashSet<K> {
    fn default() -> Self {
        HashSet { m: HashMap::default() }
    }
}
impl<K: Eq> HashSet<K> {
    pub fn new() -> Self {
        HashSet { m: HashMap::new() }
    }
    pub fn with_capacity(n: usize) -> Self {
        HashSet { m: HashMap::with_capacity(n) }
    }
    pub fn len(&self) -> usize {
        self.m.len()
    }
    pub fn is_empty(&self) -> bool {
        self.m.is_empty()
    }
    pub fn clear(&mut self) {
        self.m.clear()
    }
    pub fn insert(&mut self, k: K) -> bool {
        if self.m.contains_key(&k) {
            false
        } else {
            self.m.e.push((k, ()));
            true
        }
    }
    pub fn contains<Q: ?Sized + Eq>(&self, k: &Q) -> bool
    where
        K: Borrow<Q>,
    {
        self.m.contains_key(k)
    }
    pub fn remove<Q: ?Sized + Eq>(&mut self, k: &Q) -> bool
    where
        K: Borrow<Q>,
    {
        self.m.remove(k).is_some()
    }
    pub fn iter(&self) -> Keys<'_, K, ()> {
        self.m.keys()
    }
    pub fn get<Q: ?Sized + Eq>(&self, k: &Q) -> Option<&K>
    where
        K: Borrow<Q>,
    {
        self.m.get_key_value(k).map(|kv| kv.0)
    }
    pub fn drain(&mut self) -> SetIntoIter<K> {
        core::mem::take(self).into_iter()
    }
    pub fn retain<F: FnMut(&K) -> bool>(&mut self, mut f: F) {
        self.m.e.retain(|kv| f(&kv.0));
    }
    pub fn extend<I: IntoIterator<Item = K>>(&mut self, it: I) {
        for k in it {
            self.insert(k);
        }
    }
}
impl<'a, K: Eq> IntoIterator for &'a HashSet<K> {
    type Item = &'a K;
    type IntoIter = Keys<'a, K, ()>;
    fn into_iter(self) -> Keys<'a, K, ()> {
        self.iter()
    }
}
pub struct SetIntoIter<K>(IntoIter<K, ()>);
impl<K> Iterator for SetIntoIter<K> {
    type Item = K;
    fn next(&mut self) -> Option<K> {
        self.0.next().map(|kv| kv.0)
    }
}
impl<K: Eq> IntoIterator for HashSet<K> {
    type Item = K;
    type IntoIter = SetIntoIter<K>;
    fn into_iter(self) -> SetIntoIter<K> {
        SetIntoIter(self.m.into_iter())
    }
}
impl<K: Eq> FromIterator<K> for HashSet<K> {
    fn from_iter<I: IntoIterator<Item = K>>(it: I) -> Self {
        let mut s = HashSet::new();
        s.extend(it);
        s
    }
}
impl<K: Eq, const N: usize> From<[K; N]> for HashSet<K> {
    fn from(a: [K; N]) -> Self {
        a.into_iter().collect()
    }
}
impl<K: Eq> PartialEq for HashSet<K> {
    fn eq(&self, o: &Self) -> bool {
        self.m == o.m
    }
}
impl<K: Eq> Eq for HashSet<K> {}
impl<K: core::fmt::Debug> core::fmt::Debug for HashSet<K> {
    fn fmt(&self, f: &mut core::fmt::Formatter<'_>) -> core::fmt::Result {
        f.debug_set().entries(self.m.e.iter().map(|kv| &kv.0)).finish()
    }
}
