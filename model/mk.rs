//! Constructors shared by the harnesses. Only acb's public API is used here;
//! private constructors are reached from child modules of the anchored files.
use std::rc::Rc;

use super::ks;

use rust_decimal::Decimal;
use time::Date;

use crate::portfolio::bookkeeping::AffiliatePortfolioSecurityStatuses;
use crate::portfolio::{
    Affiliate, BuyTxSpecifics, Currency, CurrencyAndExchangeRate, PortfolioSecurityStatus,
    RocTxSpecifics, SFLInput, SellTxSpecifics, SflaTxSpecifics, SplitRatio, SplitTxSpecifics, Tx,
    TxActionSpecifics,
};
use crate::util::decimal::{GreaterEqualZeroDecimal, LessEqualZeroDecimal, NegDecimal, PosDecimal};

pub const SEC: &str = "F";

#[inline]
pub fn dec(m: i64, scale: u32) -> Decimal {
    #[cfg(kani)]
    {
        Decimal::from_model_parts(m, scale)
    }
    #[cfg(not(kani))]
    {
        Decimal::new(m, scale)
    }
}

/// `a / b` as the code under test computed it. Under the solver the model's
/// division returns a fresh quotient per call, so an oracle that divided
/// again would have to re-prove uniqueness of the quotient through a
/// multiplier (hopeless for SAT, DESIGN.md 6.1 rule 9); it reads the logged
/// quotient of the k-th division instead. Natively it is the real division.
#[inline]
pub fn logged_div(k: usize, a: Decimal, b: Decimal) -> Decimal {
    #[cfg(kani)]
    {
        // the k-th division really was a / b
        let (la, lb) = rust_decimal::kani_logged_operands(k);
        assert!(k < rust_decimal::kani_div_count(), "oracle reads a division that did not happen");
        assert!(la == a && lb == b, "oracle reads the quotient of a different division");
        rust_decimal::kani_logged_quotient(k)
    }
    #[cfg(not(kani))]
    {
        let _ = k;
        a / b
    }
}
#[inline]
pub fn div_count() -> usize {
    #[cfg(kani)]
    {
        rust_decimal::kani_div_count()
    }
    #[cfg(not(kani))]
    {
        0
    }
}
#[inline]
pub fn gez(m: i64, scale: u32) -> GreaterEqualZeroDecimal {
    GreaterEqualZeroDecimal::try_from(dec(m, scale)).unwrap()
}
#[inline]
pub fn pos(m: i64, scale: u32) -> PosDecimal {
    PosDecimal::try_from(dec(m, scale)).unwrap()
}
#[inline]
pub fn neg(m: i64, scale: u32) -> NegDecimal {
    NegDecimal::try_from(dec(m, scale)).unwrap()
}
#[inline]
pub fn lez(m: i64, scale: u32) -> LessEqualZeroDecimal {
    LessEqualZeroDecimal::try_from(dec(m, scale)).unwrap()
}

/// A symbolic integer in [lo, hi] (0 <= lo). Drawn from the narrowest
/// unsigned type that holds `hi` and zero-extended, so that the bits above
/// are *constant* zero in the SAT instance: the multiplier circuits then have
/// only as many partial products as the stated width (DESIGN.md 6.1 rule 5).
#[inline]
pub fn any_in(lo: i64, hi: i64) -> i64 {
    let v: i64 = if hi < (1 << 8) {
        ks::any_u8() as i64
    } else if hi < (1 << 16) {
        ks::any_u16() as i64
    } else {
        ks::any_u32() as i64
    };
    ks::assume(v >= lo && v <= hi);
    v
}

/// Day `ord` (1-based) of the concrete, leap year 2020. Dates in harnesses
/// are anchor + symbolic offset, so every relative distance is reachable.
#[inline]
pub fn date(ord: i64) -> Date {
    Date::from_ordinal_date(2020, ord as u16).unwrap()
}
#[inline]
pub fn date_y(year: i32, ord: i64) -> Date {
    Date::from_ordinal_date(year, ord as u16).unwrap()
}

/// The three affiliates used by the bookkeeping harnesses: 0 = default,
/// 1 = "b" (non-registered), 2 = default registered.
pub fn aff(i: u8) -> Affiliate {
    match i {
        0 => Affiliate::default(),
        1 => Affiliate::from_strep("B"),
        _ => Affiliate::default_registered(),
    }
}

pub fn cad() -> CurrencyAndExchangeRate {
    CurrencyAndExchangeRate::default()
}
/// USD at rate r/100.
pub fn usd(rate_cents: i64) -> CurrencyAndExchangeRate {
    CurrencyAndExchangeRate::rq_new(Currency::usd(), pos(rate_cents, 2))
}

pub fn status(
    bal: GreaterEqualZeroDecimal,
    all: GreaterEqualZeroDecimal,
    acb: Option<GreaterEqualZeroDecimal>,
) -> Rc<PortfolioSecurityStatus> {
    Rc::new(PortfolioSecurityStatus {
        security: SEC.to_string(),
        share_balance: bal,
        all_affiliate_share_balance: all,
        total_acb: acb,
    })
}

pub fn tx(af: Affiliate, settle: Date, idx: u32, specs: TxActionSpecifics) -> Tx {
    Tx {
        security: SEC.to_string(),
        trade_date: settle,
        settlement_date: settle,
        action_specifics: specs,
        memo: String::new(),
        affiliate: af,
        read_index: idx,
    }
}

pub fn buy(
    shares: PosDecimal,
    price: GreaterEqualZeroDecimal,
    comm: GreaterEqualZeroDecimal,
    cr: CurrencyAndExchangeRate,
    ccr: Option<CurrencyAndExchangeRate>,
) -> TxActionSpecifics {
    TxActionSpecifics::Buy(BuyTxSpecifics {
        shares,
        amount_per_share: price,
        commission: comm,
        tx_currency_and_rate: cr,
        separate_commission_currency: ccr,
    })
}
pub fn sell(
    shares: PosDecimal,
    price: GreaterEqualZeroDecimal,
    comm: GreaterEqualZeroDecimal,
    cr: CurrencyAndExchangeRate,
    ccr: Option<CurrencyAndExchangeRate>,
    sfl: Option<SFLInput>,
) -> TxActionSpecifics {
    TxActionSpecifics::Sell(SellTxSpecifics {
        shares,
        amount_per_share: price,
        commission: comm,
        tx_currency_and_rate: cr,
        separate_commission_currency: ccr,
        specified_superficial_loss: sfl,
    })
}
pub fn roc(amount: GreaterEqualZeroDecimal, cr: CurrencyAndExchangeRate) -> TxActionSpecifics {
    TxActionSpecifics::Roc(RocTxSpecifics { amount_per_held_share: amount, tx_currency_and_rate: cr })
}
pub fn sfla(shares: PosDecimal, amount: PosDecimal) -> TxActionSpecifics {
    TxActionSpecifics::Sfla(SflaTxSpecifics { shares_affected: shares, amount_per_share: amount })
}
pub fn split(post: PosDecimal, pre: PosDecimal, int_only: bool) -> TxActionSpecifics {
    TxActionSpecifics::Split(SplitTxSpecifics {
        ratio: SplitRatio { pre_split: pre, post_split: post, reverse_integer_only: int_only },
    })
}

/// Symbolic valid portfolio state over the three affiliates of `aff`:
/// affiliate i holds `bal[i]` shares (scale `bscale`) with total cost
/// `acb[i]` (scale `ascale`; ignored for the registered one), built through the real
/// `new` + `set_latest_post_status`, in the order 0,1,2 restricted to those
/// with `present[i]` (an absent affiliate has never transacted).
pub struct SymState {
    pub st: AffiliatePortfolioSecurityStatuses,
    pub present: [bool; 3],
    pub bal: [i64; 3],
    pub acb: [i64; 3],
    pub total: i64,
}

impl SymState {
    /// `bal[ai]` without a symbolic subscript (rule 3 of DESIGN.md 6.1).
    #[inline]
    pub fn bal_of(&self, ai: u8) -> i64 {
        if ai == 0 { self.bal[0] } else if ai == 1 { self.bal[1] } else { self.bal[2] }
    }
    #[inline]
    pub fn acb_of(&self, ai: u8) -> i64 {
        if ai == 0 { self.acb[0] } else if ai == 1 { self.acb[1] } else { self.acb[2] }
    }
    #[inline]
    pub fn present_of(&self, ai: u8) -> bool {
        if ai == 0 { self.present[0] } else if ai == 1 { self.present[1] } else { self.present[2] }
    }
}

pub fn sym_state(max_bal: i64, bscale: u32, max_acb: i64, ascale: u32, mask: u8) -> SymState {
    // `mask` (bit i = affiliate i has transacted before) is CONCRETE per
    // harness instance: a symbolic number of map entries makes the backing Vec
    // a symbolic-size heap object, which CBMC hands to its array theory
    // (>20 GB in post-processing). The shapes are enumerated by the runner.
    let mut st = AffiliatePortfolioSecurityStatuses::new(SEC.to_string(), None);
    let mut present = [false; 3];
    let mut bal = [0i64; 3];
    let mut acb = [0i64; 3];
    let mut total = 0i64;
    let mut i = 0u8;
    while i < 3 {
        if mask & (1 << i) != 0 {
            let b = any_in(0, max_bal);
            let a = any_in(0, max_acb);
            total += b;
            let a_opt = if i == 2 { None } else { Some(gez(a, ascale)) };
            st.set_latest_post_status(&aff(i), status(gez(b, bscale), gez(total, bscale), a_opt));
            present[i as usize] = true;
            bal[i as usize] = b;
            acb[i as usize] = if i == 2 { 0 } else { a };
        }
        i += 1;
    }
    SymState { st, present, bal, acb, total }
}

/// A TxDelta with the given transaction and gain; statuses are placeholders
/// (the functions that consume hand-built deltas in the harnesses read only the
/// fields they are given here).
pub fn delta_of(
    t: Tx,
    pre: Rc<PortfolioSecurityStatus>,
    post: Rc<PortfolioSecurityStatus>,
    gain: Option<Decimal>,
) -> crate::portfolio::TxDelta {
    crate::portfolio::TxDelta { tx: t, pre_status: pre, post_status: post, capital_gain: gain, sfl: None }
}

pub fn simple_buy(af: Affiliate, settle: Date, idx: u32) -> Tx {
    tx(af, settle, idx, buy(pos(1, 0), gez(1, 0), gez(0, 0), cad(), None))
}

pub fn tx_sec(sec: &str, af: Affiliate, settle: Date, idx: u32, specs: TxActionSpecifics) -> Tx {
    let mut t = tx(af, settle, idx, specs);
    t.security = sec.to_string();
    t
}
