#!/usr/bin/env python3
"""Writes MANIFEST.json from props.py (claimed properties) and NOT_APPLICABLE."""
import json, os
from props import PROPS, NOT_APPLICABLE, CLAIMS
V = os.path.dirname(os.path.abspath(__file__))
checks = []
for pid in sorted(PROPS):
    c = CLAIMS[pid]
    checks.append({
        "property_id": pid,
        "quick_cmd": "python3 run_check.py %s --tier quick" % pid,
        "thorough_cmd": "python3 run_check.py %s --tier thorough" % pid,
        "evidence_file": "/verif/evidence/%s.json" % pid,
        "replay_cmd_template": "python3 replay.py {path}",
        "engine": "kani",
        "level_claimed": {"category": "model_checking", "text": c["text"], "design_ref": c.get("design_ref", "DESIGN.md 5")},
        "level_note": c["note"],
        "technique": c.get("technique", "bounded model checking of the compiled Rust (Kani 0.68 / CBMC 6.11 / CaDiCaL) over symbolic inputs; counterexamples replayed natively"),
    })
m = {
    "version": 1,
    "setup_cmd": "python3 setup.py",
    "hooks": {
        "guard": "cfg(kani) / cfg(verif_replay) (set only on the scratch copy; no hook lives in /repo)",
        "enable": "run_check.py copies /repo's working tree to /var/tmp/acb-verif/<id>, copies /verif/harness and /verif/model into it, appends `#[cfg(kani)] #[path=<copy>/verif_overlay/harness/..] pub mod kani_harness;` to the anchored files there, patches rust_decimal/async-std/tracing to the model crates under /verif/stubs and builds with cargo kani (native replay: the same copy with cfg(verif_replay) and the real crates); /repo itself carries no verification code",
        "baseline_off_cmd": "cd /repo && cargo test --workspace --no-fail-fast --offline",
        "source_commits": [],
        "add_only": True,
    },
    "engines": [{"name": "kani", "path": "/verif/run_check.py", "serves_properties": sorted(PROPS),
                 "kind_free_text": "Kani 0.68 (CBMC 6.11, CaDiCaL) bounded model checking of acb's real functions on a staged copy; native replay of counterexamples against real rust_decimal/std"}],
    "checks": checks,
    "not_applicable": [{"property_id": k, "reason": v} for k, v in sorted(NOT_APPLICABLE.items()) if k not in PROPS],
    "notes": "See DESIGN.md. Exit 2 of a check = inconclusive (time-out / out of memory / cannot encode), never a pass.",
}
json.dump(m, open(os.path.join(V, "MANIFEST.json"), "w"), indent=1)
print("wrote MANIFEST.json with", len(checks), "checks")
