#!/bin/bash
# development helper: validate thorough tiers (evidence kept apart)
cd /verif; mkdir -p /var/tmp/acb-verif/ev-thorough
for p in "$@"; do
  echo "=== $p $(date +%H:%M:%S)"
  VERIF_EVIDENCE_DIR=/var/tmp/acb-verif/ev-thorough VERIF_STAGE_SUFFIX=-t python3 run_check.py $p --tier thorough 2>&1 | grep -E "^(RESULT|VIOLATION|KNOWN|NOTE|INCONCLUSIVE|  c)"
done
