#!/bin/bash
# usage: run_seeded.sh <seeded-dir-name> <Cxx> [--only h1,h2]    (development helper)
# Runs a check against a scratch worktree of /repo with the seeded change
# applied (VERIF_REPO), keeping evidence and staging separate.
s=$1; prop=$2; shift 2
wt=/tmp/wt-mut-$s
git -C /repo worktree remove --force $wt 2>/dev/null
git -C /repo worktree add -q --detach $wt HEAD || exit 2
git -C $wt apply /verif/seeded/$s/patch.diff || { echo "patch does not apply"; exit 2; }
mkdir -p /var/tmp/acb-verif/ev-$s
cd /verif && VERIF_REPO=$wt VERIF_EVIDENCE_DIR=/var/tmp/acb-verif/ev-$s VERIF_STAGE_SUFFIX=-$s python3 run_check.py $prop --tier quick "$@" > /var/tmp/acb-verif/seeded-$s-$prop.out 2>&1
echo "exit=$?" >> /var/tmp/acb-verif/seeded-$s-$prop.out
git -C /repo worktree remove --force $wt
tail -12 /var/tmp/acb-verif/seeded-$s-$prop.out
