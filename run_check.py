#!/usr/bin/env python3
"""quick_cmd / thorough_cmd of every check:  run_check.py <Cxx> --tier quick|thorough

exit 0  every harness of the tier passed (SUCCESSFUL, unwinding assertions
        held, all cover witnesses satisfied), or only listed known findings
exit 1  a counterexample that replays natively against /repo's working tree:
        prints  VIOLATION property=<id> replay=<path>
exit 2  inconclusive (time-out, out of memory, cannot encode, counterexample
        that does not reproduce natively) -- never reported as a pass
"""
import argparse
import json
import os
import re
import subprocess
import sys
import time

import vlib
from props import PROPS, HARNESS_DOC, QUICK_NO_COVERS

VERIF = vlib.VERIF


def load_known():
    res = []
    p = os.path.join(VERIF, "known_findings.txt")
    if os.path.exists(p):
        for line in open(p):
            line = line.strip()
            if not line or line.startswith("#"):
                continue
            if line.startswith("fixed:"):
                continue  # a fixed entry suppresses nothing
            m = re.match(r"known: property=(\S+) harness=(\S+) site=(\S+) (.*)", line)
            if m:
                res.append({"property": m.group(1), "harness": m.group(2), "site": m.group(3),
                            "what": m.group(4)})
    return res


def parse_playback(out):
    """harness name -> list of (check kind, description, [hex values]) from
    --concrete-playback=print, one entry per generated test."""
    res = {}
    blocks = re.split(r"Concrete playback unit test for `([\w:]+)`:", out)
    for k in range(1, len(blocks), 2):
        name = blocks[k].split("::")[-1]
        body = blocks[k + 1]
        m = re.search(r"Check for `(\w+)`: \"(.*)\"", body)
        kind, desc = (m.group(1), m.group(2)) if m else ("?", "")
        fm = re.search(r"let concrete_vals: Vec<Vec<u8>> = vec!\[(.*?)\n    \];", body, re.S)
        if not fm:
            continue
        vals = []
        for v in re.finditer(r"vec!\[([\d,\s]*)\]", fm.group(1)):
            bs = [int(x) for x in v.group(1).replace("\n", " ").split(",") if x.strip()]
            vals.append("".join("%02x" % b for b in bs))
        res.setdefault(name, []).append((kind, desc, vals))
    return res


SPURIOUS = ("rust_dealloc must be called", "free argument", "double free", "free called for")


def counterexample_candidates(entries):
    """Concrete-playback tests that may carry the counterexample, best first:
    the tests generated for a failed user assertion / panic (not the
    deallocation-model checks of kani_lib.c), then the tests labelled as cover
    witnesses -- Kani prints one test per distinct vector of values, so when the
    assignment that violates the assertion is the same one that witnesses a
    cover, the only copy is labelled `cover`."""
    first, second = [], []
    for kind, desc, vals in entries:
        if any(s in desc for s in SPURIOUS):
            continue
        (second if kind == "cover" else first).append((kind, desc, vals))
    return first + second


def pick_counterexample(entries):
    c = counterexample_candidates(entries)
    return c[0] if c else None


def native_replay(harness, vals, stage_dir, features=None):
    """Run the same harness natively (real rust_decimal, std HashMap, regex; no
    stubs) on the counterexample's input values, dev and release profile."""
    results = {}
    env = dict(vlib.ENV)
    env["RUSTFLAGS"] = "--cfg verif_replay -A warnings"
    for prof in ("dev", "release"):
        cmd = ["cargo", "build", "--no-default-features", "--bin", "verif_replay",
               "--target-dir", vlib.NATIVE_TARGET]
        if features:
            cmd += ["--features", features]
        if prof == "release":
            cmd.append("--release")
        b = subprocess.run(cmd, cwd=stage_dir, env=env, stdout=subprocess.PIPE, stderr=subprocess.STDOUT, text=True)
        if b.returncode != 0:
            results[prof] = {"status": "build-failed", "out": b.stdout[-2000:]}
            continue
        exe = os.path.join(vlib.NATIVE_TARGET, "debug" if prof == "dev" else "release", "verif_replay")
        env2 = dict(env)
        env2["VERIF_REPLAY_VALS"] = ",".join(vals)
        r = subprocess.run([exe, harness], env=env2, stdout=subprocess.PIPE, stderr=subprocess.STDOUT, text=True,
                           timeout=120)
        out = r.stdout
        if "REPLAY-COMPLETED-WITHOUT-FAILURE" in out:
            st = "no-failure"
        elif "REPLAY-ASSUME-FAILED" in out or "REPLAY-MISMATCH" in out or "REPLAY-UNKNOWN" in out:
            st = "not-applicable"
        elif r.returncode != 0 and ("panicked at" in out):
            st = "reproduced"
        else:
            st = "unknown"
        m = re.search(r"panicked at ([^\n]*)\n([^\n]*)", out)
        results[prof] = {"status": st, "rc": r.returncode, "panic": (m.group(1) + " | " + m.group(2)) if m else None,
                         "out": out[-1500:]}
    return results


def main():
    ap = argparse.ArgumentParser()
    ap.add_argument("prop")
    ap.add_argument("--tier", default=os.environ.get("VERIF_TIER", "quick"))
    ap.add_argument("--only", default=None, help="comma-separated harness names (development)")
    ap.add_argument("--keep", action="store_true")
    args = ap.parse_args()
    prop = args.prop
    spec = PROPS[prop]
    tier = args.tier if args.tier in ("quick", "thorough") else "quick"
    seed = int(os.environ.get("VERIF_SEED", "0") or 0)
    t0 = time.time()
    groups = spec[tier]
    known = [k for k in load_known() if k["property"] == prop]

    ev = {"property_id": prop, "tier": tier, "seed": seed, "level": "model_checking",
          "coverage": {}, "assumptions": list(spec.get("assumptions", [])) + list(vlib_assumptions()),
          "wall_s": 0.0, "violations": 0}
    harness_results = {}
    exit_code = 0
    messages = []
    stage_name = "%s-%s%s" % (prop, tier, os.environ.get("VERIF_STAGE_SUFFIX", ""))
    try:
        stage_dir = vlib.stage(stage_name, "kani", wide=(tier == "thorough"))
    except vlib.CannotEncode as e:
        print("INCONCLUSIVE property=%s cannot encode: %s" % (prop, e))
        finish(ev, prop, t0, harness_results, spec, messages, 2)
        return 2
    replay_dir = None
    try:
        import threading
        lock = threading.Lock()
        state = {"exit": 0, "replay_dir": None}
        main_stage_dir = stage_dir
        extra_dirs = []

        def bump(code):
            with lock:
                if code == 1 or (code == 2 and state["exit"] == 0):
                    state["exit"] = code if state["exit"] != 1 else 1

        def get_replay_dir():
            with lock:
                if state["replay_dir"] is None:
                    state["replay_dir"] = vlib.stage(stage_name + "-replay", "replay", wide=(tier == "thorough"))
                return state["replay_dir"]

        def run_group(g):
            hs = g["harnesses"]
            if args.only:
                hs = [h for h in hs if h in args.only.split(",")]
                if not hs:
                    return
            log = os.path.join(vlib.SCRATCH_ROOT, "%s.%s.log" % (stage_name, g.get("name", "g")))
            # every group works on its own staged copy (its own crate path, so the
            # concurrent cargo-kani invocations do not overwrite each other's artefacts)
            if g is groups[0]:
                stage_dir = main_stage_dir
            else:
                stage_dir = vlib.stage(stage_name + "-" + g.get("name", "g"), "kani", wide=(tier == "thorough"))
                with lock:
                    extra_dirs.append(stage_dir)
            # concrete playback is never requested up front: with it Kani hands CBMC
            # a formula 2.7x larger (18M instead of 7M variables on the window
            # harnesses); failing harnesses are re-run with playback below
            res = vlib.run_kani(stage_dir, hs, features=g.get("features"), jobs=g.get("jobs", 8),
                                timeout_s=g.get("timeout_s", 3000), mem_gb=g.get("mem_gb", 20),
                                cbmc_args=g.get("cbmc_args", vlib.DEFAULT_CBMC_ARGS), log_path=log,
                                harness_timeout=g.get("harness_timeout_s", 1200), exact=True,
                                playback=False)
            if not res["harnesses"] and res["rc"] != 0:
                tail = "\n".join(l for l in res["out"].splitlines() if l.startswith("error"))[:1500]
                with lock:
                    messages.append("build or tool failure in group %s: %s" % (g.get("name"), tail))
                bump(2)
            for h in hs:
                r = res["harnesses"].get(h)
                c = vlib.classify(r, spec.get("expect_covers", {}).get(h),
                                  no_covers=(tier == "quick" and h in QUICK_NO_COVERS))
                harness_results[h] = {"class": c, "time_s": r and r["time_s"], "checks": r and r["checks"],
                                      "covers": r and [r["covers_sat"], r["covers"]],
                                      "failed_checks": r and r["failed_checks"][:6]}
            failing = [h for h in hs if harness_results[h]["class"] == "fail"]
            # known finding, quick tier: if every failed check of the harness is the
            # listed site and the committed witness (findings/<prop>.<harness>.quick.json)
            # still reproduces natively on this tree, the finding is confirmed without
            # the second, playback run of Kani (which alone takes longer than the
            # quick budget); anything else goes through the full path below
            for h in list(failing):
                wpath = os.path.join(VERIF, "findings", "%s.%s.%s.json" % (prop, h, tier))
                kfs = [k for k in known if k["harness"] == h]
                fc = harness_results[h]["failed_checks"] or []
                if not (kfs and fc and os.path.exists(wpath)):
                    continue
                kf = next((k for k in kfs if all(k["site"] in c for c in fc)), None)
                if not kf:
                    continue
                w = json.load(open(wpath))
                rdir = get_replay_dir()
                with lock:
                    rr = native_replay(h, w["values"], rdir, features=g.get("features"))
                if any(v["status"] == "reproduced" and kf["site"] in (v.get("panic") or "") for v in rr.values()):
                    hr = harness_results[h]
                    hr["class"] = "known"
                    hr["failed_assertion"] = fc[0]
                    hr["values"] = w["values"]
                    hr["replay"] = {k: {"status": v["status"], "panic": v.get("panic")} for k, v in rr.items()}
                    hr["note"] = ("solver verdict FAILED on the listed assertion only; concrete values are the committed "
                                  "witness %s, reproduced natively on this tree" % os.path.relpath(wpath, VERIF))
                    print("KNOWN-FINDING: property=%s %s (harness %s)" % (prop, kf["what"], h), flush=True)
                    failing.remove(h)
            if failing:
                pb = parse_playback(res["out"])
                missing = [h for h in failing if not pick_counterexample(pb.get(h, []))]
                if missing:
                    pres = vlib.run_kani(stage_dir, missing, features=g.get("features"), jobs=1,
                                         timeout_s=g.get("timeout_s", 3000), mem_gb=g.get("mem_gb", 20),
                                         cbmc_args=g.get("cbmc_args", vlib.DEFAULT_CBMC_ARGS),
                                         log_path=log + ".playback", playback=True,
                                         harness_timeout=g.get("harness_timeout_s", 1200), exact=True)
                    pb.update(parse_playback(pres["out"]))
                rdir = get_replay_dir()
                for h in failing:
                    hr = harness_results[h]
                    cands = counterexample_candidates(pb.get(h, []))
                    if not cands:
                        hr["class"] = "inconclusive"
                        hr["note"] = ("only deallocation-model checks of kani_lib.c failed (memory-model artefact)"
                                      if pb.get(h) else "no concrete values from playback")
                        continue
                    pick, rr = None, None
                    for cand in cands[:4]:
                        with lock:   # one native build at a time
                            rr_c = native_replay(h, cand[2], rdir, features=g.get("features"))
                        if pick is None:
                            pick, rr = cand, rr_c
                        if any(v["status"] == "reproduced" for v in rr_c.values()):
                            pick, rr = cand, rr_c
                            break
                    vals = pick[2]
                    hr["failed_assertion"] = pick[1]
                    hr["replay"] = {k: {"status": v["status"], "panic": v.get("panic")} for k, v in rr.items()}
                    hr["values"] = vals[:40]
                    statuses = [v["status"] for v in rr.values()]
                    if "reproduced" in statuses:
                        site = " ".join(hr["failed_checks"] or []) + " " + (pick[1] or "")
                        panic = next((v["panic"] for v in rr.values() if v.get("panic")), "")
                        kf = next((k for k in known if k["harness"] == h and
                                   (k["site"] in site or k["site"] in (panic or ""))), None)
                        rp = os.path.join(os.environ.get("VERIF_EVIDENCE_DIR") or os.path.join(VERIF, "evidence"),
                                          "replay", "%s.%s.json" % (prop, h))
                        os.makedirs(os.path.dirname(rp), exist_ok=True)
                        json.dump({"property": prop, "harness": h, "values": vals, "failed_checks": hr["failed_checks"],
                                   "failed_assertion": pick[1], "wide": tier == "thorough", "features": g.get("features"), "native": rr,
                                   "how": "VERIF_REPLAY_VALS=%s <replay build>/verif_replay %s" % (",".join(vals), h)},
                                  open(rp, "w"), indent=1)
                        if kf:
                            hr["class"] = "known"
                            print("KNOWN-FINDING: property=%s %s (harness %s)" % (prop, kf["what"], h), flush=True)
                        else:
                            hr["class"] = "violation"
                            print("VIOLATION property=%s replay=%s" % (prop, rp), flush=True)
                            with lock:
                                ev["violations"] += 1
                            bump(1)
                    else:
                        hr["class"] = "inconclusive"
                        hr["note"] = "counterexample did not reproduce natively (model/stub/oracle artefact)"
            for h in hs:
                c = harness_results[h]["class"]
                if c in ("inconclusive", "vacuous"):
                    bump(2)

        # groups run concurrently (each is its own cargo-kani invocation; cargo
        # serialises the builds, the solver runs overlap)
        if tier in spec.get("sequential_tiers", ()):
            # memory-heavy tiers: one group after the other
            for g in groups:
                run_group(g)
        else:
            threads = [threading.Thread(target=run_group, args=(g,)) for g in groups]
            for k, t in enumerate(threads):
                t.start()
                time.sleep(20 if k + 1 < len(threads) else 0)
            for t in threads:
                t.join()
        exit_code = max(exit_code, state["exit"]) if state["exit"] != 1 else 1
        replay_dir = state["replay_dir"]
    finally:
        if not args.keep:
            vlib.cleanup(stage_dir)
            for d in locals().get("extra_dirs", []):
                vlib.cleanup(d)
            if replay_dir:
                vlib.cleanup(replay_dir)
    finish(ev, prop, t0, harness_results, spec, messages, exit_code)
    return exit_code


def vlib_assumptions():
    return [
        "rust_decimal is replaced by /verif/stubs/rust_decimal: exact (i64 mantissa, scale<=18) arithmetic, division rounded half-even at 6 fractional digits; paths leaving that range are cut (outside the bound)",
        "std HashMap/HashSet replaced by 4-slot maps in one Box (/verif/model/collections.rs): exact map semantics, more than 4 entries per map is outside the bound; iteration order = insertion order unless the harness switches the nondeterministic order on",
        "alloc::fmt::format, core::fmt::write, Date/Decimal Display stubbed to no-ops (error texts are not examined)",
        "Affiliate::from_strep stubbed by an interning table over the spellings used (short ids of pairwise different lengths); regex normalisation outside the claim",
        "tracing macros expand to nothing; async-std block_on is a poll loop",
        "CBMC run with unwinding assertions on; memory-safety/overflow instrumentation off (safe Rust)",
    ]


def finish(ev, prop, t0, hres, spec, messages, exit_code):
    n = len(hres)
    passed = sum(1 for r in hres.values() if r["class"] == "pass")
    checks = sum((r.get("checks") or 0) for r in hres.values())
    solver_s = sum((r.get("time_s") or 0) for r in hres.values())
    ev["wall_s"] = round(time.time() - t0, 1)
    ev["coverage"] = {
        "states": max(1, checks),
        "transitions": max(1, n),
        "traces_validated_against_impl": sum(1 for r in hres.values() if r.get("replay")),
        "samples": [{"harness": h, "what": HARNESS_DOC.get(h, ""), **r} for h, r in sorted(hres.items())][:60],
        "evaluations": max(1, n),
        "distinct_nontrivial": max(2, passed) if passed >= 2 else passed,
        "rule": "one evaluation = one Kani harness (a fixed shape with symbolic numbers/flags/dates) decided by CBMC over every value in the stated ranges; non-trivial = verdict SUCCESSFUL with every cover witness satisfied (window harnesses carry witnesses in the thorough tier only) and unwinding assertions holding",
        "harnesses_total": n,
        "harnesses_passed": passed,
        "cbmc_checks_discharged": checks,
        "solver_time_s": round(solver_s, 1),
        "functions_encoded": spec.get("functions", []),
        "bounds": spec.get("bounds", ""),
        "outside_bounds": spec.get("outside", ""),
        "exit_code": exit_code,
        "messages": messages,
        "explanation": "states = CBMC checks (assertions, unwrap/expect/panic reachability, unwinding assertions) discharged over all harnesses; transitions = harnesses (solver queries)",
    }
    vlib.write_evidence(prop, ev)
    for m in messages:
        print("NOTE:", m)
    print("RESULT property=%s tier=%s harnesses=%d passed=%d exit=%d wall=%.0fs" %
          (prop, ev["tier"], n, passed, exit_code, ev["wall_s"]))
    for h, r in sorted(hres.items()):
        print("  %-40s %-12s %6ss checks=%s %s" % (h, r["class"], r.get("time_s"), r.get("checks"), r.get("note", "")))


if __name__ == "__main__":
    sys.exit(main())
