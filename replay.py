#!/usr/bin/env python3
"""replay_cmd_template: python3 replay.py <evidence/replay/Cxx.harness.json>
Re-runs a recorded counterexample natively against /repo's current working
tree (real rust_decimal / std HashMap / regex, no stubs), dev and release.
exit 1 if the failure reproduces, 0 if it does not."""
import json, sys
import vlib
from run_check import native_replay

def main():
    rec = json.load(open(sys.argv[1]))
    d = vlib.stage("replay-" + rec["harness"], "replay", wide=rec.get("wide", False))
    try:
        rr = native_replay(rec["harness"], rec["values"], d, features=rec.get("features"))
    finally:
        vlib.cleanup(d)
    for prof, r in rr.items():
        print(prof, r["status"], r.get("panic") or "")
    return 1 if any(r["status"] == "reproduced" for r in rr.values()) else 0

if __name__ == "__main__":
    sys.exit(main())
