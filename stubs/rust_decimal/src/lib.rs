//! Model of `rust_decimal::Decimal` used by /verif (never by acb's users).
//!
//! A value is `mantissa * 10^-scale`. `+ - *` are exact, `/` returns the
//! quotient rounded half-even at `DIV_SCALE` fractional digits (rust_decimal:
//! rounded at up to 28 significant digits), comparison is numeric, rounding is
//! rust_decimal's `MidpointAwayFromZero`. Results that leave the model range
//! (mantissa width, scale > MAX_SCALE) are *outside the bound*: under Kani the
//! path is cut with `kani::assume(false)`, natively it panics with
//! "decimal model range".
//!
//! Natively (`cfg(not(kani))`) the mantissa is i128 and DIV_SCALE = 28, so
//! acb's own unit tests can be run against this model (translator validation);
//! under Kani the mantissa is i64 and DIV_SCALE is `kani_div_scale()`
//! (default 6), and the scale of every result is a function of the operand
//! scales only, so that concrete scales stay concrete in the solver.
#![allow(clippy::all)]

use core::cmp::Ordering;
use core::fmt;
use core::ops::{Add, AddAssign, Div, DivAssign, Mul, MulAssign, Neg, Rem, Sub, SubAssign};
use core::str::FromStr;

#[cfg(kani)]
pub type Mant = i64;
#[cfg(not(kani))]
pub type Mant = i128;

#[cfg(kani)]
pub const MAX_SCALE: u32 = 18;
#[cfg(not(kani))]
pub const MAX_SCALE: u32 = 28;

#[cfg(kani)]
const P10: [Mant; 19] = [
    1,
    10,
    100,
    1_000,
    10_000,
    100_000,
    1_000_000,
    10_000_000,
    100_000_000,
    1_000_000_000,
    10_000_000_000,
    100_000_000_000,
    1_000_000_000_000,
    10_000_000_000_000,
    100_000_000_000_000,
    1_000_000_000_000_000,
    10_000_000_000_000_000,
    100_000_000_000_000_000,
    1_000_000_000_000_000_000,
];
#[cfg(not(kani))]
const P10: [Mant; 39] = {
    let mut t = [1i128; 39];
    let mut i = 1;
    while i < 39 {
        t[i] = t[i - 1] * 10;
        i += 1;
    }
    t
};

/// Digits kept by `/`. A Kani harness may lower it (see `set_kani_div_scale`).
#[cfg(kani)]
pub static mut KANI_DIV_SCALE: u32 = 6;
/// One-slot log of the last quotient mantissa produced by `/` (rule 9 of
/// DESIGN.md 6.1: oracles are aligned with the division model).
#[cfg(kani)]
pub static mut Q_LOG: [(i64, u32); 6] = [(0, 0); 6];
/// Operands of the k-th division, so that an oracle reading a logged quotient
/// can also assert *which* division it was.
#[cfg(kani)]
pub static mut OPS_LOG: [(i64, u32, i64, u32); 6] = [(0, 0, 0, 0); 6];
#[cfg(kani)]
pub static mut DIV_COUNT: usize = 0;

/// The k-th quotient produced by `/` since the harness started.
#[cfg(kani)]
pub fn kani_logged_quotient(k: usize) -> Decimal {
    let (m, s) = unsafe {
        match k {
            0 => Q_LOG[0],
            1 => Q_LOG[1],
            2 => Q_LOG[2],
            3 => Q_LOG[3],
            4 => Q_LOG[4],
            _ => Q_LOG[5],
        }
    };
    Decimal { m, scale: s, neg_zero: 0 }
}
/// (dividend, divisor) of the k-th division.
#[cfg(kani)]
pub fn kani_logged_operands(k: usize) -> (Decimal, Decimal) {
    let (am, asc, bm, bsc) = unsafe {
        match k {
            0 => OPS_LOG[0],
            1 => OPS_LOG[1],
            2 => OPS_LOG[2],
            3 => OPS_LOG[3],
            4 => OPS_LOG[4],
            _ => OPS_LOG[5],
        }
    };
    (Decimal { m: am, scale: asc, neg_zero: 0 }, Decimal { m: bm, scale: bsc, neg_zero: 0 })
}
#[cfg(kani)]
pub fn kani_div_count() -> usize {
    unsafe { DIV_COUNT }
}

#[cfg(kani)]
pub fn set_kani_div_scale(p: u32) {
    unsafe {
        KANI_DIV_SCALE = p;
    }
}

#[inline]
fn div_scale() -> u32 {
    #[cfg(kani)]
    unsafe {
        KANI_DIV_SCALE
    }
    #[cfg(not(kani))]
    {
        28
    }
}

#[inline]
fn out_of_range() -> ! {
    #[cfg(kani)]
    {
        kani::assume(false);
        unreachable!()
    }
    #[cfg(not(kani))]
    {
        panic!("decimal model range")
    }
}

#[inline]
fn p10(k: u32) -> Mant {
    if (k as usize) >= P10.len() {
        out_of_range();
    }
    P10[k as usize]
}

#[cfg(kani)]
const LIM: Mant = 1 << 62;
#[cfg(not(kani))]
const LIM: Mant = 79_228_162_514_264_337_593_543_950_335 + 1; // 2^96

#[inline]
fn chk(m: Mant) -> Mant {
    if m >= LIM || m <= -LIM {
        out_of_range();
    }
    m
}

/// Product of two mantissas. Under Kani both operands must be below 2^31 in
/// magnitude (else the path is outside the bound), so the i64 product cannot
/// wrap and no double-width overflow predicate is needed.
#[inline]
fn mul_m(a: Mant, b: Mant) -> Mant {
    #[cfg(kani)]
    {
        const H: Mant = 1 << 31;
        if a >= H || a <= -H || b >= H || b <= -H {
            out_of_range();
        }
        // Canonical operand order: SAT solvers cannot prove x*y == y*x on
        // multiplier circuits in reasonable time, but they can prove
        // min/max(x,y) == min/max(y,x); the two circuits then share inputs.
        if a <= b {
            a * b
        } else {
            b * a
        }
    }
    #[cfg(not(kani))]
    match a.checked_mul(b) {
        Some(v) => chk(v),
        None => out_of_range(),
    }
}

/// mantissa * 10^k (rescaling); range-checked against the model width.
#[inline]
fn scale_m(a: Mant, k: u32) -> Mant {
    let f = p10(k);
    let lim = (LIM - 1) / f;
    if a > lim || a < -lim {
        out_of_range();
    }
    a * f
}

/// Truncated division with remainder, by a positive divisor. Under Kani the
/// quotient is a fresh variable constrained by the division lemma (cheap for
/// the solver); natively it is `/`.
#[inline]
fn divrem(num: Mant, den: Mant) -> (Mant, Mant) {
    debug_assert!(den > 0);
    #[cfg(kani)]
    {
        // q*den must not wrap: divisor and quotient below 2^31 (else the path
        // is outside the bound).
        const H: Mant = 1 << 31;
        if den >= H {
            out_of_range();
        }
        // Magnitudes drawn from u32 and zero-extended: the upper bits are
        // constant zero for the SAT solver.
        let q: Mant = (kani::any::<u32>() >> 1) as Mant;
        let r: Mant = (kani::any::<u32>() >> 1) as Mant;
        kani::assume(r < den);
        if num >= 0 {
            kani::assume(q * den + r == num);
            (q, r)
        } else {
            kani::assume(q * den + r == -num);
            (-q, -r)
        }
    }
    #[cfg(not(kani))]
    {
        (num / den, num % den)
    }
}

#[derive(Clone, Copy)]
pub struct Decimal {
    m: Mant,
    scale: u32,
    // rust_decimal can represent -0; acb tests this (set_sign_negative on 0).
    neg_zero: u8, // 0/1; a u8 (not bool) so that enums around Decimal get an explicit tag instead of a niche
}

#[derive(Clone, Copy, Debug, PartialEq, Eq)]
pub enum RoundingStrategy {
    MidpointNearestEven,
    MidpointAwayFromZero,
    MidpointTowardZero,
    ToZero,
    AwayFromZero,
    ToNegativeInfinity,
    ToPositiveInfinity,
}

#[derive(Clone, Debug, PartialEq, Eq)]
pub enum Error {
    ErrorString(String),
    ExceedsMaximumPossibleValue,
    LessThanMinimumPossibleValue,
    Underflow,
    ScaleExceedsMaximumPrecision(u32),
    ConversionTo(String),
}

impl fmt::Display for Error {
    fn fmt(&self, f: &mut fmt::Formatter<'_>) -> fmt::Result {
        match self {
            Error::ErrorString(s) => f.pad(s),
            Error::ExceedsMaximumPossibleValue => {
                f.pad("Number exceeds maximum value that can be represented.")
            }
            Error::LessThanMinimumPossibleValue => {
                f.pad("Number less than minimum value that can be represented.")
            }
            Error::Underflow => f.pad("Number has a high precision that can not be represented."),
            Error::ScaleExceedsMaximumPrecision(_) => f.pad("Scale exceeds the maximum precision allowed"),
            Error::ConversionTo(s) => f.pad(s),
        }
    }
}
impl std::error::Error for Error {}

pub struct UnpackedDecimal {
    pub negative: bool,
    pub scale: u32,
    pub hi: u32,
    pub mid: u32,
    pub lo: u32,
}

impl Decimal {
    pub const ZERO: Decimal = Decimal { m: 0, scale: 0, neg_zero: 0 };
    pub const ONE: Decimal = Decimal { m: 1, scale: 0, neg_zero: 0 };
    pub const NEGATIVE_ONE: Decimal = Decimal { m: -1, scale: 0, neg_zero: 0 };
    pub const TWO: Decimal = Decimal { m: 2, scale: 0, neg_zero: 0 };
    pub const TEN: Decimal = Decimal { m: 10, scale: 0, neg_zero: 0 };
    pub const ONE_HUNDRED: Decimal = Decimal { m: 100, scale: 0, neg_zero: 0 };
    pub const MAX: Decimal = Decimal { m: LIM - 1, scale: 0, neg_zero: 0 };
    pub const MIN: Decimal = Decimal { m: -(LIM - 1), scale: 0, neg_zero: 0 };

    /// Model-only constructor used by harnesses.
    pub const fn from_model_parts(m: Mant, scale: u32) -> Decimal {
        Decimal { m, scale, neg_zero: 0 }
    }
    pub const fn model_mantissa(&self) -> Mant {
        self.m
    }

    pub fn new(num: i64, scale: u32) -> Decimal {
        if scale > MAX_SCALE {
            out_of_range();
        }
        Decimal { m: num as Mant, scale, neg_zero: 0 }
    }

    pub const fn from_parts(lo: u32, mid: u32, hi: u32, negative: bool, scale: u32) -> Decimal {
        #[cfg(kani)]
        let m: Mant = {
            // i64 model: constants used by acb fit in 62 bits.
            assert!(hi == 0 && mid < (1 << 30));
            ((mid as i64) << 32) | (lo as i64)
        };
        #[cfg(not(kani))]
        let m: Mant = ((hi as i128) << 64) | ((mid as i128) << 32) | (lo as i128);
        Decimal { m: if negative { -m } else { m }, scale, neg_zero: (negative && m == 0) as u8 }
    }

    pub fn unpack(&self) -> UnpackedDecimal {
        let a = self.m.unsigned_abs() as u128;
        UnpackedDecimal {
            negative: self.is_sign_negative(),
            scale: self.scale,
            hi: (a >> 64) as u32,
            mid: (a >> 32) as u32,
            lo: a as u32,
        }
    }

    pub const fn scale(&self) -> u32 {
        self.scale
    }
    pub const fn mantissa(&self) -> i128 {
        self.m as i128
    }
    pub const fn is_zero(&self) -> bool {
        self.m == 0
    }
    pub const fn is_sign_negative(&self) -> bool {
        self.m < 0 || (self.m == 0 && self.neg_zero != 0)
    }
    pub const fn is_sign_positive(&self) -> bool {
        !self.is_sign_negative()
    }
    pub fn set_sign_positive(&mut self, positive: bool) {
        self.set_sign_negative(!positive)
    }
    pub fn set_sign_negative(&mut self, negative: bool) {
        if self.m == 0 {
            self.neg_zero = negative as u8;
        } else if (self.m < 0) != negative {
            self.m = -self.m;
        }
    }
    pub fn abs(&self) -> Decimal {
        Decimal { m: if self.m < 0 { -self.m } else { self.m }, scale: self.scale, neg_zero: 0 }
    }
    pub fn is_integer(&self) -> bool {
        if self.scale == 0 {
            return true;
        }
        let (_, r) = divrem(self.m, p10(self.scale));
        r == 0
    }
    pub fn trunc(&self) -> Decimal {
        if self.scale == 0 {
            return *self;
        }
        let (q, _) = divrem(self.m, p10(self.scale));
        Decimal { m: q, scale: 0, neg_zero: 0 }
    }
    pub fn normalize(&self) -> Decimal {
        if self.m == 0 {
            return Decimal::ZERO;
        }
        let mut m = self.m;
        let mut s = self.scale;
        while s > 0 && m % 10 == 0 {
            m /= 10;
            s -= 1;
        }
        Decimal { m, scale: s, neg_zero: 0 }
    }
    pub fn max(self, other: Decimal) -> Decimal {
        if self < other {
            other
        } else {
            self
        }
    }
    pub fn min(self, other: Decimal) -> Decimal {
        if other < self {
            other
        } else {
            self
        }
    }

    pub fn round_dp(&self, dp: u32) -> Decimal {
        self.round_dp_with_strategy(dp, RoundingStrategy::MidpointNearestEven)
    }

    pub fn round_dp_with_strategy(&self, dp: u32, strategy: RoundingStrategy) -> Decimal {
        if self.scale <= dp {
            return *self;
        }
        let d = p10(self.scale - dp);
        let neg = self.m < 0;
        let a = if neg { -self.m } else { self.m };
        let (q, r) = divrem(a, d);
        let twice = r * 2;
        let up = match strategy {
            RoundingStrategy::MidpointAwayFromZero => twice >= d,
            RoundingStrategy::MidpointTowardZero => twice > d,
            RoundingStrategy::MidpointNearestEven => twice > d || (twice == d && q % 2 != 0),
            RoundingStrategy::ToZero => false,
            RoundingStrategy::AwayFromZero => r != 0,
            RoundingStrategy::ToNegativeInfinity => neg && r != 0,
            RoundingStrategy::ToPositiveInfinity => !neg && r != 0,
        };
        let q = if up { q + 1 } else { q };
        Decimal { m: if neg { -q } else { q }, scale: dp, neg_zero: (neg && q == 0) as u8 }
    }

    pub fn from_str_exact(s: &str) -> Result<Decimal, Error> {
        parse(s, true)
    }
    pub fn from_scientific(s: &str) -> Result<Decimal, Error> {
        let l = s.to_ascii_lowercase();
        let mut it = l.splitn(2, 'e');
        let base = it.next().unwrap();
        let exp: i32 = it
            .next()
            .ok_or_else(|| Error::ErrorString("Failed to parse".into()))?
            .parse()
            .map_err(|_| Error::ErrorString("Failed to parse".into()))?;
        let mut d = parse(base, true)?;
        if exp < 0 {
            d.scale += (-exp) as u32;
            if d.scale > MAX_SCALE {
                return Err(Error::ScaleExceedsMaximumPrecision(d.scale));
            }
        } else {
            let e = exp as u32;
            if d.scale >= e {
                d.scale -= e;
            } else {
                d.m = scale_m(d.m, e - d.scale);
                d.scale = 0;
            }
        }
        Ok(d)
    }

    pub fn checked_add(self, o: Decimal) -> Option<Decimal> {
        Some(self + o)
    }
    pub fn checked_sub(self, o: Decimal) -> Option<Decimal> {
        Some(self - o)
    }
    pub fn checked_mul(self, o: Decimal) -> Option<Decimal> {
        Some(self * o)
    }
    pub fn checked_div(self, o: Decimal) -> Option<Decimal> {
        if o.is_zero() {
            None
        } else {
            Some(self / o)
        }
    }
}

fn parse(s: &str, exact: bool) -> Result<Decimal, Error> {
    let b = s.as_bytes();
    if b.is_empty() {
        return Err(Error::ErrorString("Invalid decimal: empty".into()));
    }
    let mut i = 0;
    let mut neg = false;
    if b[0] == b'-' {
        neg = true;
        i = 1;
    } else if b[0] == b'+' {
        i = 1;
    }
    let mut m: Mant = 0;
    let mut scale: u32 = 0;
    let mut seen_dot = false;
    let mut digits = 0u32;
    let mut dropped = false;
    while i < b.len() {
        let c = b[i];
        if c >= b'0' && c <= b'9' {
            if seen_dot && scale >= MAX_SCALE {
                if exact {
                    return Err(Error::Underflow);
                }
                dropped = true;
            } else {
                m = match m.checked_mul(10).and_then(|v| v.checked_add((c - b'0') as Mant)) {
                    Some(v) if v < LIM => v,
                    _ => return Err(Error::ErrorString("Invalid decimal: overflow from too many digits".into())),
                };
                if seen_dot {
                    scale += 1;
                }
            }
            digits += 1;
        } else if c == b'.' {
            if seen_dot {
                return Err(Error::ErrorString("Invalid decimal: two decimal points".into()));
            }
            seen_dot = true;
        } else if c == b'_' {
            if digits == 0 {
                return Err(Error::ErrorString("Invalid decimal: must start lead with a number".into()));
            }
        } else {
            return Err(Error::ErrorString("Invalid decimal: unknown character".into()));
        }
        i += 1;
    }
    let _ = dropped;
    if digits == 0 {
        return Err(Error::ErrorString("Invalid decimal: no digits found".into()));
    }
    Ok(Decimal { m: if neg { -m } else { m }, scale, neg_zero: (neg && m == 0) as u8 })
}

impl FromStr for Decimal {
    type Err = Error;
    fn from_str(s: &str) -> Result<Decimal, Error> {
        parse(s, false)
    }
}

impl Default for Decimal {
    fn default() -> Self {
        Decimal::ZERO
    }
}

#[inline]
fn align(a: &Decimal, b: &Decimal) -> (Mant, Mant, u32) {
    if a.scale == b.scale {
        (a.m, b.m, a.scale)
    } else if a.scale < b.scale {
        (scale_m(a.m, b.scale - a.scale), b.m, b.scale)
    } else {
        (a.m, scale_m(b.m, a.scale - b.scale), a.scale)
    }
}

fn add_impl(a: &Decimal, b: &Decimal) -> Decimal {
    let (x, y, s) = align(a, b);
    Decimal { m: chk(x + y), scale: s, neg_zero: 0 }
}
fn sub_impl(a: &Decimal, b: &Decimal) -> Decimal {
    let (x, y, s) = align(a, b);
    Decimal { m: chk(x - y), scale: s, neg_zero: 0 }
}
fn mul_impl(a: &Decimal, b: &Decimal) -> Decimal {
    let s = a.scale + b.scale;
    if s > MAX_SCALE {
        // rust_decimal would round the product to 28 digits; outside the model.
        #[cfg(not(kani))]
        {
            // natively: keep going by truncating (only reached by validation runs)
            let m = mul_m(a.m, b.m);
            let (q, _) = divrem(m, p10(s - MAX_SCALE));
            return Decimal { m: q, scale: MAX_SCALE, neg_zero: 0 };
        }
        #[cfg(kani)]
        out_of_range();
    }
    Decimal { m: mul_m(a.m, b.m), scale: s, neg_zero: 0 }
}
fn div_impl(a: &Decimal, b: &Decimal) -> Decimal {
    if b.m == 0 {
        panic!("Division by zero");
    }
    let p = div_scale();
    // a/b = (am * 10^-sa) / (bm * 10^-sb); result mantissa at scale p:
    // q = am * 10^(p + sb) / (bm * 10^sa)
    let neg = (a.m < 0) != (b.m < 0);
    let am = if a.m < 0 { -a.m } else { a.m };
    let bm = if b.m < 0 { -b.m } else { b.m };
    #[cfg(kani)]
    {
        let num = scale_m(am, p + b.scale);
        let den = scale_m(bm, a.scale);
        let (q0, r) = divrem(num, den);
        // round half to even at the last kept digit, like rust_decimal does at
        // its 28th: a truncating model rounds 2/3 the other way than the real
        // crate and produced counterexamples that did not replay natively
        let twice = r * 2;
        let q = if twice > den || (twice == den && q0 % 2 != 0) { q0 + 1 } else { q0 };
        let qm = if neg { -q } else { q };
        unsafe {
            // concrete counter, constant subscripts: no array theory
            let ops = (a.m, a.scale, b.m, b.scale);
            match DIV_COUNT {
                0 => { Q_LOG[0] = (qm, p); OPS_LOG[0] = ops; }
                1 => { Q_LOG[1] = (qm, p); OPS_LOG[1] = ops; }
                2 => { Q_LOG[2] = (qm, p); OPS_LOG[2] = ops; }
                3 => { Q_LOG[3] = (qm, p); OPS_LOG[3] = ops; }
                4 => { Q_LOG[4] = (qm, p); OPS_LOG[4] = ops; }
                5 => { Q_LOG[5] = (qm, p); OPS_LOG[5] = ops; }
                _ => {}
            }
            DIV_COUNT += 1;
        }
        Decimal { m: qm, scale: p, neg_zero: 0 }
    }
    #[cfg(not(kani))]
    {
        // Native validation mode: as many digits as fit, like rust_decimal.
        let mut p = p;
        loop {
            let num = am.checked_mul(P10[(p + b.scale) as usize]);
            let den = bm.checked_mul(P10[a.scale as usize]);
            if let (Some(num), Some(den)) = (num, den) {
                let q = num / den;
                let r = num % den;
                if q < LIM {
                    // round half up at the last kept digit like rust_decimal
                    let q = if r * 2 >= den { q + 1 } else { q };
                    let mut d = Decimal { m: if neg { -q } else { q }, scale: p, neg_zero: 0 };
                    if r == 0 {
                        d = d.normalize_to_min_scale();
                    }
                    return d;
                }
            }
            if p == 0 {
                panic!("Division overflowed");
            }
            p -= 1;
        }
    }
}

impl Decimal {
    #[cfg(not(kani))]
    fn normalize_to_min_scale(self) -> Decimal {
        let mut m = self.m;
        let mut s = self.scale;
        while s > 0 && m % 10 == 0 {
            m /= 10;
            s -= 1;
        }
        Decimal { m, scale: s, neg_zero: 0 }
    }
}

fn cmp_impl(a: &Decimal, b: &Decimal) -> Ordering {
    let (x, y, _) = align(a, b);
    x.cmp(&y)
}

macro_rules! binop {
    ($tr:ident, $f:ident, $imp:ident) => {
        impl $tr<Decimal> for Decimal {
            type Output = Decimal;
            #[inline]
            fn $f(self, o: Decimal) -> Decimal {
                $imp(&self, &o)
            }
        }
        impl<'a> $tr<&'a Decimal> for Decimal {
            type Output = Decimal;
            #[inline]
            fn $f(self, o: &Decimal) -> Decimal {
                $imp(&self, o)
            }
        }
        impl<'a> $tr<Decimal> for &'a Decimal {
            type Output = Decimal;
            #[inline]
            fn $f(self, o: Decimal) -> Decimal {
                $imp(self, &o)
            }
        }
        impl<'a, 'b> $tr<&'b Decimal> for &'a Decimal {
            type Output = Decimal;
            #[inline]
            fn $f(self, o: &Decimal) -> Decimal {
                $imp(self, o)
            }
        }
    };
}
binop!(Add, add, add_impl);
binop!(Sub, sub, sub_impl);
binop!(Mul, mul, mul_impl);
binop!(Div, div, div_impl);

fn rem_impl(a: &Decimal, b: &Decimal) -> Decimal {
    if b.m == 0 {
        panic!("Division by zero");
    }
    let (x, y, s) = align(a, b);
    let ya = if y < 0 { -y } else { y };
    let (_, r) = divrem(x, ya);
    Decimal { m: r, scale: s, neg_zero: 0 }
}
binop!(Rem, rem, rem_impl);

macro_rules! assignop {
    ($tr:ident, $f:ident, $imp:ident) => {
        impl $tr<Decimal> for Decimal {
            #[inline]
            fn $f(&mut self, o: Decimal) {
                *self = $imp(self, &o);
            }
        }
        impl<'a> $tr<&'a Decimal> for Decimal {
            #[inline]
            fn $f(&mut self, o: &Decimal) {
                *self = $imp(self, o);
            }
        }
    };
}
assignop!(AddAssign, add_assign, add_impl);
assignop!(SubAssign, sub_assign, sub_impl);
assignop!(MulAssign, mul_assign, mul_impl);
assignop!(DivAssign, div_assign, div_impl);

impl Neg for Decimal {
    type Output = Decimal;
    fn neg(self) -> Decimal {
        Decimal { m: -self.m, scale: self.scale, neg_zero: (self.m == 0 && self.neg_zero == 0) as u8 }
    }
}
impl<'a> Neg for &'a Decimal {
    type Output = Decimal;
    fn neg(self) -> Decimal {
        -*self
    }
}

impl PartialEq for Decimal {
    #[inline]
    fn eq(&self, o: &Decimal) -> bool {
        cmp_impl(self, o) == Ordering::Equal
    }
}
impl Eq for Decimal {}
impl PartialOrd for Decimal {
    #[inline]
    fn partial_cmp(&self, o: &Decimal) -> Option<Ordering> {
        Some(cmp_impl(self, o))
    }
}
impl Ord for Decimal {
    #[inline]
    fn cmp(&self, o: &Decimal) -> Ordering {
        cmp_impl(self, o)
    }
}
impl core::hash::Hash for Decimal {
    fn hash<H: core::hash::Hasher>(&self, state: &mut H) {
        let n = self.normalize();
        n.m.hash(state);
        n.scale.hash(state);
    }
}

impl core::iter::Sum for Decimal {
    fn sum<I: Iterator<Item = Decimal>>(iter: I) -> Self {
        let mut s = Decimal::ZERO;
        for i in iter {
            s += i;
        }
        s
    }
}
impl<'a> core::iter::Sum<&'a Decimal> for Decimal {
    fn sum<I: Iterator<Item = &'a Decimal>>(iter: I) -> Self {
        let mut s = Decimal::ZERO;
        for i in iter {
            s += i;
        }
        s
    }
}

macro_rules! from_int {
    ($($t:ty),*) => {$(
        impl From<$t> for Decimal {
            #[inline]
            fn from(v: $t) -> Decimal { Decimal { m: v as Mant, scale: 0, neg_zero: 0 } }
        }
    )*};
}
from_int!(i8, i16, i32, i64, u8, u16, u32, u64, isize, usize);

impl num_traits::Zero for Decimal {
    fn zero() -> Decimal {
        Decimal::ZERO
    }
    fn is_zero(&self) -> bool {
        self.m == 0
    }
}
impl num_traits::One for Decimal {
    fn one() -> Decimal {
        Decimal::ONE
    }
}
impl num_traits::FromPrimitive for Decimal {
    fn from_i64(n: i64) -> Option<Decimal> {
        Some(Decimal::from(n))
    }
    fn from_u64(n: u64) -> Option<Decimal> {
        Some(Decimal::from(n))
    }
    fn from_f64(n: f64) -> Option<Decimal> {
        // text round trip, like rust_decimal's from_f64 for "nice" values
        format!("{}", n).parse().ok()
    }
}
impl num_traits::ToPrimitive for Decimal {
    fn to_i64(&self) -> Option<i64> {
        let t = self.trunc();
        i64::try_from(t.m).ok()
    }
    fn to_u64(&self) -> Option<u64> {
        let t = self.trunc();
        u64::try_from(t.m).ok()
    }
    fn to_f64(&self) -> Option<f64> {
        Some(self.m as f64 / (P10[self.scale as usize] as f64))
    }
}

/// Digits of |m| with `scale` fractional digits, rounded (half away from
/// zero, like rust_decimal's Display with a precision) or zero-padded to
/// `prec` fractional digits when given.
fn to_str_internal(d: &Decimal, prec: Option<usize>) -> String {
    let mut v = *d;
    if let Some(p) = prec {
        if (p as u32) < v.scale {
            v = v.round_dp_with_strategy(p as u32, RoundingStrategy::MidpointAwayFromZero);
        }
    }
    let neg = v.is_sign_negative();
    let mut a = if v.m < 0 { -v.m } else { v.m };
    let mut digits: Vec<u8> = Vec::new();
    if a == 0 {
        digits.push(b'0');
    }
    while a > 0 {
        digits.push(b'0' + (a % 10) as u8);
        a /= 10;
    }
    while (digits.len() as u32) <= v.scale {
        digits.push(b'0');
    }
    let mut out = String::new();
    if neg {
        out.push('-');
    }
    let n = digits.len();
    let int_len = n - v.scale as usize;
    for i in 0..n {
        if i == int_len {
            out.push('.');
        }
        out.push(digits[n - 1 - i] as char);
    }
    if let Some(p) = prec {
        let have = v.scale as usize;
        if p > have {
            if have == 0 {
                out.push('.');
            }
            for _ in have..p {
                out.push('0');
            }
        }
    }
    out
}

impl fmt::Display for Decimal {
    fn fmt(&self, f: &mut fmt::Formatter<'_>) -> fmt::Result {
        let s = to_str_internal(self, f.precision());
        // rust_decimal: pad_integral(non-negative, "", digits)
        if let Some(rest) = s.strip_prefix('-') {
            f.pad_integral(false, "", rest)
        } else {
            f.pad_integral(true, "", &s)
        }
    }
}
impl fmt::Debug for Decimal {
    fn fmt(&self, f: &mut fmt::Formatter<'_>) -> fmt::Result {
        fmt::Display::fmt(self, f)
    }
}

pub mod prelude {
    pub use crate::{Decimal, RoundingStrategy};
    pub use core::str::FromStr;
    pub use num_traits::{FromPrimitive, One, Signed, ToPrimitive, Zero};
}
