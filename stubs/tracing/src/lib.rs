//! Verification-only stand-in for `tracing`: every macro expands to nothing
//! (a reachable tracing::debug! makes kani-compiler 0.68 ICE).
#[macro_export]
macro_rules! trace { ($($t:tt)*) => {{}}; }
#[macro_export]
macro_rules! debug { ($($t:tt)*) => {{}}; }
#[macro_export]
macro_rules! info { ($($t:tt)*) => {{}}; }
#[macro_export]
macro_rules! warn { ($($t:tt)*) => {{}}; }
#[macro_export]
macro_rules! error { ($($t:tt)*) => {{}}; }

pub mod subscriber {
    pub fn set_global_default<S>(_s: S) -> Result<(), ()> {
        Ok(())
    }
}
