//! Verification-only stand-in; src/tracing.rs is replaced in the staged copy,
//! so nothing of this crate is referenced.
