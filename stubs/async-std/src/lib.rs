//! Verification-only stand-in for async-std (rustix 0.37 does not build under
//! Kani's toolchain). Only `task::block_on` and `task::spawn` are used by acb.
pub mod task {
    use core::future::Future;
    use core::pin::Pin;
    use core::task::{Context, Poll, RawWaker, RawWakerVTable, Waker};

    fn raw_waker() -> RawWaker {
        fn no_op(_: *const ()) {}
        fn clone(_: *const ()) -> RawWaker {
            raw_waker()
        }
        static VTABLE: RawWakerVTable = RawWakerVTable::new(clone, no_op, no_op, no_op);
        RawWaker::new(core::ptr::null(), &VTABLE)
    }

    /// Poll loop with a no-op waker. acb's futures never return Pending
    /// unless the remote loader does, which the harnesses' loaders do not.
    pub fn block_on<F: Future>(fut: F) -> F::Output {
        let waker = unsafe { Waker::from_raw(raw_waker()) };
        let mut cx = Context::from_waker(&waker);
        let mut fut = Box::pin(fut);
        loop {
            if let Poll::Ready(v) = fut.as_mut().poll(&mut cx) {
                return v;
            }
        }
    }

    pub struct JoinHandle<T>(Option<T>);
    impl<T: Unpin> Future for JoinHandle<T> {
        type Output = T;
        fn poll(mut self: Pin<&mut Self>, _cx: &mut Context<'_>) -> Poll<T> {
            Poll::Ready(self.0.take().unwrap())
        }
    }

    pub fn spawn<F, T>(fut: F) -> JoinHandle<T>
    where
        F: Future<Output = T> + Send + 'static,
        T: Send + 'static,
    {
        JoinHandle(Some(block_on(fut)))
    }
}
